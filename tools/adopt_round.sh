#!/bin/bash
# tools/adopt_round.sh <scratch root> <suffix1> <suffix2> Cxx...   (e.g. /tmp/mut4 i j C04 C11)
# Adopts <root>/<Cxx>/change1 and change2 as seeded/<Cxx>-<suffix1|2> with tools/adopt2.sh,
# one build cache per job (removed afterwards). Logs in <root>/adopt-<id>.log.
ROOT=$1; S1=$2; S2=$3; shift 3
for p in "$@"; do
  for n in 1 2; do
    s=$S1; [ $n = 2 ] && s=$S2
    id=$p-$s
    [ -d $ROOT/$p/change$n ] || { echo "missing $ROOT/$p/change$n"; continue; }
    CONFIRM_TARGET=$ROOT/ct-$id ROUND=${ROUND:-4} /verif/tools/adopt2.sh $ROOT/$p/change$n $id $p > $ROOT/adopt-$id.log 2>&1
    rm -rf $ROOT/ct-$id
    grep -E "^RESULT|^REJECTED" $ROOT/adopt-$id.log
  done
done
