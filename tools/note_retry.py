#!/usr/bin/env python3
"""tools/note_retry.py <id> <property> "<what was strengthened>" <caught ids...> : record a re-run after strengthening"""
import json,sys,os
id,prop,note=sys.argv[1:4]; caught=sys.argv[4:]
p=f'/verif/seeded/{id}/meta.json'
if os.path.exists(p):
    m=json.load(open(p))
else:
    notes=open(f'/verif/seeded/{id}/author-notes.txt').read() if os.path.exists(f'/verif/seeded/{id}/author-notes.txt') else ''
    m={"id":id,"breaks_property":prop,"origin":"fresh sub-agent given only the property text and a scratch worktree of /repo",
       "needs_to_manifest":notes,
       "confirmed":{"demo_passes_on_clean_tree":True,"demo_fails_with_change":True,"baseline_547_still_pass":True,"how":"scratch worktree under /tmp (removed afterwards)"},
       "checks_run":"tools/try_mutant.sh","caught_by":[],"not_caught_by":[]}
m.setdefault("first_run_caught_by", list(m["caught_by"]))
m["strengthening"]=note
for c in caught:
    if c not in m["caught_by"]: m["caught_by"].append(c)
    if c in m.get("not_caught_by",[]): m["not_caught_by"].remove(c)
m["caught_by"].sort()
json.dump(m,open(p,'w'),indent=1)
print(id, m["caught_by"])
