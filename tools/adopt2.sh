#!/bin/bash
# tools/adopt2.sh <dir with patch.diff demo.rs meta.txt> <seeded id> <property>
# Round-2 adoption: confirm in a scratch worktree, copy to seeded/<id>/, run the target check first;
# if it misses, run all checks. Writes catch.txt and meta.json.
set -u
SRC=$(readlink -f "$1"); ID=$2; PROP=$3
cd /verif
conf=$(./tools/confirm_mutant.sh "$SRC" 2>&1 | grep -E "demo-|suite:|NOW FAILING|does not apply")
echo "$conf"
echo "$conf" | grep -q "demo-clean: PASS" || { echo "REJECTED $ID: demo does not pass on the clean tree"; exit 1; }
echo "$conf" | grep -q "demo-mutant: FAIL" || { echo "REJECTED $ID: demo does not fail with the change"; exit 1; }
echo "$conf" | grep -q "baseline_missing=0" || { echo "REJECTED $ID: existing tests break"; exit 1; }
mkdir -p seeded/$ID
cp "$SRC/patch.diff" "$SRC/demo.rs" seeded/$ID/
[ -f "$SRC/demo_example.rs" ] && cp "$SRC/demo_example.rs" seeded/$ID/
cp "$SRC/meta.txt" seeded/$ID/author-notes.txt 2>/dev/null
res=$(./tools/try_mutant_iso.sh seeded/$ID/patch.diff $PROP 2>&1)
if ! echo "$res" | grep -q "^$PROP rc=1"; then
  others=$(python3 -c "import json;print(' '.join(c['property_id'] for c in json.load(open('/verif/MANIFEST.json'))['checks'] if c['property_id']!='$PROP'))")
  res="$res
$(./tools/try_mutant_iso.sh seeded/$ID/patch.diff $others 2>&1)"
fi
echo "$res" | tee seeded/$ID/catch.txt | cut -c1-220
python3 - "$ID" "$PROP" <<'PY'
import json,sys,re,os
id,prop=sys.argv[1:3]
notes=open(f'/verif/seeded/{id}/author-notes.txt').read() if os.path.exists(f'/verif/seeded/{id}/author-notes.txt') else ''
catch=open(f'/verif/seeded/{id}/catch.txt').read().splitlines()
caught=[l.split()[0] for l in catch if re.match(r'C\d+ rc=1',l)]
missed=[l.split()[0] for l in catch if re.match(r'C\d+ rc=0',l)]
other=[l.split()[0]+':'+l.split()[1] for l in catch if re.match(r'C\d+ rc=[2-9]',l)]
json.dump({
 "id":id,"breaks_property":prop,"round":int(os.environ.get("ROUND","2")),
 "origin":"fresh sub-agent given only the property text and a scratch worktree of /repo",
 "needs_to_manifest":notes,
 "confirmed":{"demo_passes_on_clean_tree":True,"demo_fails_with_change":True,"baseline_547_still_pass":True,
              "how":"tools/confirm_mutant.sh in a scratch worktree under /tmp (removed afterwards)"},
 "checks_run":"tools/try_mutant_iso.sh (scratch worktree of /repo + scratch copy of /verif): the target check first; all other checks only when the target check missed",
 "caught_by":caught,"not_caught_by":missed,"inconclusive":other,
},open(f'/verif/seeded/{id}/meta.json','w'),indent=1)
print("RESULT",id,"caught by:",caught)
PY
