#!/bin/bash
# Confirm a candidate seeded change in a scratch worktree (outside /repo and /verif):
#   tools/confirm_mutant.sh <dir with patch.diff and demo.rs>
# 1. demo passes on the unmodified tree, 2. patch applies and compiles, 3. the 547 baseline tests
# still pass with the patch, 4. demo fails with the patch. Prints a summary; removes the worktree.
set -u
D=$(readlink -f "$1")
W=/tmp/confirm-wt-$$
T=${CONFIRM_TARGET:-/tmp/confirm-target}   # build cache shared between confirmations, removed by the caller
git -C /repo worktree add -q --detach "$W" HEAD || exit 2
cleanup() { git -C /repo worktree remove --force "$W" >/dev/null 2>&1; }
trap cleanup EXIT
cd "$W" || exit 2
export CARGO_TARGET_DIR=$T CARGO_NET_OFFLINE=true
cp "$D/demo.rs" tests/zz_demo.rs
# some demos need a tiny example program next to them
if [ -f "$D/demo_example.rs" ]; then cp "$D/demo_example.rs" examples/c11_prog.rs; fi
echo "== demo on the unmodified tree"
if cargo test --offline --test zz_demo >"$D/confirm-demo-clean.log" 2>&1; then echo "demo-clean: PASS"; else echo "demo-clean: FAIL (unexpected)"; tail -15 "$D/confirm-demo-clean.log"; fi
echo "== applying patch"
if ! git apply "$D/patch.diff"; then echo "patch does not apply"; exit 1; fi
echo "== demo with the change"
if cargo test --offline --test zz_demo >"$D/confirm-demo-mut.log" 2>&1; then echo "demo-mutant: PASS (unexpected)"; else echo "demo-mutant: FAIL (as wanted)"; fi
rm -f tests/zz_demo.rs examples/c11_prog.rs
echo "== existing suite with the change"
cargo nextest run --workspace --no-fail-fast --offline --test-threads 8 >"$D/confirm-suite.log" 2>&1
python3 - "$D/confirm-suite.log" <<'PY'
import json,re,sys
base=json.load(open('/root/.vp/BASELINE.json'))
stable=set(base['stable_pass'])
passed=set()
for line in open(sys.argv[1],errors='replace'):
    m=re.match(r'\s+(PASS|FAIL)\s+\[[^\]]*\]\s+(?:\(\s*\d+/\d+\)\s+)?(\S+)\s+(\S+)',line)
    if m and m.group(1)=='PASS': passed.add(m.group(2)+'::'+m.group(3))
missing=sorted(stable-passed)
print(f"suite: passed={len(passed)} baseline_missing={len(missing)}")
for m in missing[:10]: print("  NOW FAILING:",m)
PY
