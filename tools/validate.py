#!/usr/bin/env python3-vt
import json,sys,glob,jsonschema
m=json.load(open('/verif/MANIFEST.json'))
jsonschema.validate(m,json.load(open('/root/.vp/MANIFEST.schema.json')))
es=json.load(open('/root/.vp/EVIDENCE.schema.json'))
for f in sorted(glob.glob('/verif/evidence/*.json')):
    jsonschema.validate(json.load(open(f)),es)
props=[json.loads(l)['id'] for l in open('/verif/properties.jsonl')]
claimed={c['property_id'] for c in m['checks']}
na={c['property_id'] for c in m.get('not_applicable',[])}
missing=[p for p in props if p not in claimed and p not in na]
print("manifest ok; evidence ok; claimed",sorted(claimed),"na",sorted(na),"unlisted",missing)
