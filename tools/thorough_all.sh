#!/bin/bash
# Runs the thorough tier of the given checks (default: all) one after another from the tree this
# script lives in; prints one summary line per check. Meant for `vp run -- tools/thorough_all.sh`.
ROOT=$(dirname "$(dirname "$(readlink -f "$0")")")
cd "$ROOT" || exit 2
IDS="$@"
[ -z "$IDS" ] && IDS="C01 C02 C03 C04 C05 C06 C07 C08 C09 C10 C11 C12 C13 C14 C15 C16 C17 C18 C19 C20"
tools/setup.sh >/dev/null 2>&1 || { echo "setup failed"; exit 2; }
worst=0
for id in $IDS; do
  ./check $id --tier thorough > work/thorough-$id.log 2>&1; rc=$?
  echo "== $id rc=$rc"; grep -E "tier=|libfuzzer|VIOLATION|KNOWN-FINDING|INCONCLUSIVE|signature" work/thorough-$id.log | head -20
  [ $rc -gt $worst ] && worst=$rc
done
exit $worst
