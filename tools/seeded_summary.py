#!/usr/bin/env python3
"""Regenerate /verif/seeded/SUMMARY.md from the meta.json files."""
import json,glob,os
rows=[]
for f in sorted(glob.glob('/verif/seeded/*/meta.json')):
    m=json.load(open(f))
    rows.append(m)
out=["# Seeded breaking changes and which checks catch them (quick tier)\n",
     "Each change was written by a fresh sub-agent that saw only the property text and a scratch worktree, was re-confirmed with tools/confirm_mutant.sh (demo passes on the clean tree, fails with the change, the 547 baseline tests unchanged) and run against every registered check with tools/try_mutant.sh.\n",
     "| id | breaks | caught by target check | caught by | strengthened |","|---|---|---|---|---|"]
for m in rows:
    tgt=m['breaks_property']
    out.append(f"| {m['id']} | {tgt} | {'yes' if tgt in m['caught_by'] else '**no**'} | {', '.join(m['caught_by']) or '-'} | {m.get('strengthening','')} |")
out.append("")
out.append(f"{len(rows)} changes; caught by at least one check: {sum(1 for m in rows if m['caught_by'])}; caught by the check of the property they target: {sum(1 for m in rows if m['breaks_property'] in m['caught_by'])}.")
open('/verif/seeded/SUMMARY.md','w').write('\n'.join(out)+'\n')
print('\n'.join(out[-3:]))
