#!/usr/bin/env python3
"""Regenerate /verif/MANIFEST.json from the table below (one row per implemented check)."""
import json

CHECKS = {
 "C01": dict(
   text="property-based search: generated definitions x sentences/non-sentences judged by a by-construction expectation and an independent reference grammar model; sampling, never exhaustive",
   note="trusted: the reference model in harness/src/model.rs and the Spec interpreter in harness/src/build.rs; vectors outside the property's quantifier are skipped and counted",
   tech="property-based testing (proptest over choice sequences) against a reference grammar model and by-construction sentences"),
}

PENDING_REASON = "check not built yet in this session (designed in DESIGN.md section 4; property-based testing applies to it)"

def main():
    props = [json.loads(l)["id"] for l in open("/verif/properties.jsonl")]
    checks = []
    for pid in props:
        if pid not in CHECKS:
            continue
        c = CHECKS[pid]
        checks.append({
            "property_id": pid,
            "quick_cmd": f"./check {pid} --tier quick",
            "thorough_cmd": f"./check {pid} --tier thorough",
            "evidence_file": f"/verif/evidence/{pid}.json",
            "replay_cmd_template": f"./check {pid} --replay {{path}}",
            "engine": "pbt",
            "level_claimed": {"category": "exploration", "text": c["text"], "design_ref": f"DESIGN.md section 4, {pid}"},
            "level_note": c["note"],
            "technique": c["tech"],
        })
    m = {
        "version": 1,
        "setup_cmd": "cd /verif/harness && CARGO_NET_OFFLINE=true cargo build --release --offline",
        "hooks": {
            "guard": "none (no source hooks: bpaf's public API is sufficient; the reserved cfg name bpaf_verif is unused)",
            "enable": "checks build /repo's working tree as a path dependency of /verif/harness (cargo build --release --offline); nothing to enable",
            "baseline_off_cmd": "/verif/tools/baseline.sh",
            "source_commits": [],
            "add_only": True,
        },
        "engines": [{
            "name": "pbt",
            "path": "/verif/harness",
            "serves_properties": [c["property_id"] for c in checks],
            "kind_free_text": "Rust crate: Spec interpreter over bpaf's public API, choice-sequence decoder, proptest driver sharded over 16 worker processes (plus cargo-fuzz targets and subprocess drivers), reference grammar model, lexers, evidence/replay/known-finding handling",
        }],
        "checks": checks,
        "not_applicable": [{"property_id": p, "reason": PENDING_REASON} for p in props if p not in CHECKS],
        "notes": "All checks are generated-input search against explicit oracles (DESIGN.md). ./check <id> rebuilds the harness against /repo's working tree first. Exit 2 = inconclusive/infrastructure, never a violation.",
    }
    json.dump(m, open("/verif/MANIFEST.json", "w"), indent=1)
    print("wrote MANIFEST.json with", len(checks), "checks")

main()
