#!/usr/bin/env python3
"""Regenerate /verif/MANIFEST.json from the table below (one row per implemented check)."""
import json

CHECKS = {
 "C01": dict(
   text="property-based search: generated definitions x sentences/non-sentences judged by a by-construction expectation and an independent reference grammar model; sampling, never exhaustive",
   note="trusted: the reference model in harness/src/model.rs and the Spec interpreter in harness/src/build.rs; vectors outside the property's quantifier are skipped and counted",
   tech="property-based testing (proptest over choice sequences) against a reference grammar model and by-construction sentences"),
 "C02": dict(
   text="property-based search: one sentence rendered with two independently generated spelling vectors must give the same outcome and deliver every written value byte-exact; adjacent()-restricted arguments probed with a detached value",
   note="trusted: the spelling renderer (harness/src/broad.rs) only produces spellings that denote the same sentence; three inherent ambiguities of the notation are excluded by construction and listed in the evidence assumptions",
   tech="property-based testing, metamorphic relation between two spellings of one generated sentence + by-construction byte-exact values"),
 "C03": dict(
   text="property-based search over (definition, sentence, admissible permutation) plus a second family (repeated group of a named lead and positionals, named occurrences permuted around the words); thorough tier additionally enumerates every admissible permutation of levels with <=5 blocks; a third family: an option with an optional value (choice between an adjacent()-restricted argument and a bare flag of the same name) among switches, a repeated option and words, every admissible order run; empty values attached with `=`",
   note="trusted: block construction (an argument and its value stay one block) and the same-field order constraint computed by the generator",
   tech="property-based testing, metamorphic relation between a line and a generated permutation of its named blocks (exhaustive permutations for small levels in the thorough tier)"),
 "C05": dict(
   text="property-based search: accepted generated sentences with unique tokens are checked for linearity, then a foreign item of four kinds is inserted at every position and the run must fail on stderr; a word that begins like a cluster (declared non-ASCII flag + undeclared letter) must arrive as one word with nothing around it lost",
   note="trusted: the generator's notion of 'no parser can own this item' (undeclared names; surplus word only when positional slots are bounded and full; second copy only of single-use options)",
   tech="property-based testing: invariant over the result (token multiset) + exhaustive single-item insertion at every position of each generated line"),
 "C09": dict(
   text="property-based search over definitions with positionals of every strictness/arity and lines with `--` at generated positions and dash-looking data right of it; metamorphic, validity and (canonical shapes) reference-model oracles; the words that start bpaf's completion machinery among the words right of `--`; a defaulted non_strict positional in front of the positional collecting the rest",
   note="trusted: the reference model for canonical shapes; for other positional orders only the metamorphic and validity clauses are asserted (documentation does not fix more)",
   tech="property-based testing: metamorphic replacement of everything right of `--`, validity predicate on accepted values, reference model for canonical shapes"),
 "C10": dict(
   text="property-based search: help flag inserted as its own item at every position left of `--` of generated valid/invalid/incomplete lines; outcome must be stdout with the help text of the level entered (computed from that level alone), also with the flag given twice; version flag likewise on valid lines; one case in eight: a choice between a positional branch and subcommands (command bare/fallback/optional) with the help flag behind the command name; a help flag lost inside the first contiguous block of an adjacent command is reported under its own signature (the recorded finding needs a foreign item or an earlier failing block)",
   note="trusted: the standalone rendering of a level's help as the reference text; for mutated lines any level on the chain of command names is accepted",
   tech="property-based testing: exhaustive insertion positions per generated line, differential against the help of the level built alone"),
 "C04": dict(
   text="property-based search with the widest definition generator and arbitrary byte-string vectors (every wrapper, any(..) predicates, adjacent groups with any lead) over all modes (parse, help, version, completion revisions 0/1/7/8/9 with/without name, markdown/html/manpage) and run histories; panics are caught in-process, aborts/stack overflow/process exit/hangs are detected by the parent through per-case slot files and a watchdog",
   note="termination cannot be established by testing: bounded generation; a single case that runs longer than 60 s (cases take milliseconds) is reported as a violation `no-termination`, a stalled worker without an attributable case as inconclusive (exit 2). `--bpaf-complete-*` items are excluded (documented process exits)",
   tech="property-based testing / fuzz-style totality check (catch_unwind + watchdog) with a history-replay purity oracle"),
 "C06": dict(
   text="enumeration of every wrapper stack of depth <=3 (quick: <=2) x 5 contexts (plain, inside a choice, around a choice, subcommand, adjacent group) x 6 typed leaves x 6 invalid texts, plus property-based sampling with catch flags and unrelated fields; invalid-present must fail with the conversion/guard text, absent must default exactly when the stack can produce a value from nothing; fallback_to_usage set on a third of the definitions whose line has other items",
   note="trusted: the abstract evaluation of wrapper semantics on absence (harness/src/props/c06.rs absent_value), written from the documentation of each wrapper; FromStr error texts are obtained by calling the same FromStr",
   tech="exhaustive enumeration of wrapper stacks + property-based sampling; oracle: by-construction expectation per stack"),
 "C07": dict(
   text="property-based search over choices of 2-4 alternatives of six kinds under bare/optional/many/some, lines built from scenarios with all items shuffled; independent evaluation of the documented winner rule; every definition is also built with bpaf::choice([..]) and must behave as construct!([..]) does",
   note="trusted: the rule evaluator in harness/src/props/c07.rs (leftmost item wins, ties to the first listed, many/some in order of leftmost item); optional over always-succeeding alternatives is skipped (value not fixed by the documentation)",
   tech="property-based testing against a small reference evaluator of the documented alternative rule"),
 "C08": dict(
   text="property-based search over command trees of depth <=3 with structural misplacement mutations; reference grammar model + by-construction values; help after the k-th command name compared with the help of that level built alone, at every depth; one case in eight: a choice between a positional branch and subcommands in either order (command entered by its name as first free item, surplus word rejected, other words go to the positional branch)",
   note="trusted: reference model (levels) and standalone help rendering as the reference text",
   tech="property-based testing against the reference grammar model, plus differential help text per command level"),
 "C19": dict(
   text="property-based search over four adjacent-group shapes x wrappers with 0-3 blocks placed among other options (a top-level word may stand in front), a second family of positional pairs right of `--`, with block mutations (cut short, split by a foreign item, lead not first, members reordered); by-construction expectation and a contiguity predicate on every accepted value; third family: blocks inside the block of an adjacent command (adjacent group or regular subcommand as its body) with enclosing switches between and inside blocks",
   note="trusted: the generator's block bookkeeping (which item belongs to which block, which item is foreign)",
   tech="property-based testing: by-construction values for well-formed lines, must-fail mutants, validity predicate (contiguous run starting at the lead) on accepted lines"),
 "C12": dict(
   text="property-based search over decorated definitions; for every reachable command level the expectation (visible items, first names, metavariables, markers) is computed from the definition and compared with the tokenised help text in both directions; differential without usage decorations; every shown name probed for acceptance; second family: any(..) items with help texts, alone and as members of an adjacent block, visible or hidden",
   note="trusted: the visibility computation in harness/src/props/c12.rs (what hide/adjacent/alias mean for the item lists) and unique marker words as the carrier of 'help text present'",
   tech="property-based testing: by-construction expectation + tokenising lexer of the help text + metamorphic (decorations removed) + acceptance probes"),
 "C13": dict(
   text="property-based search over documents obtained from real runs (help of any level, error messages) with grammar-generated texts, rendered at 14 widths (thorough: all of 1..=300); whitespace-insensitive equality with the unwrapped rendering, line-width predicate, short-form marker check",
   note="trusted: width 65535 as the 'unwrapped' reference (largest width std::fmt accepts); the exception clause of the width rule is implemented generously (a wrapped term tail counts as a term)",
   tech="property-based testing: metamorphic relation between widths + validity predicate per line"),
 "C14": dict(
   text="property-based search over partially typed lines (every cut of generated sentences x 10 kinds of typed word) at completion revision 0; each returned row is classified against name/value/metavariable sets computed from the definition and the chain of commands entered; completeness for freshly typed --prefixes and command prefixes; metamorphic relation (an unrelated switch before the typed word changes nothing at the active level); second family: a name that is an alternative to a positional item; completers attached on top of optional/many/some/fallback wrappers of named arguments",
   note="trusted: the chain-of-levels computation and the candidate sets derived from the definition; completeness only for items that are a field of their own",
   tech="property-based testing: validity predicate over parsed completion rows + completeness check from a by-construction expectation"),
 "C15": dict(
   text="property-based search with hostile strings; differential between revision 0 and the bash/zsh/fish/elvish renderings through an independent shell-word lexer (directive grammar, all data single-quoted, each candidate/completer exactly once); ~6% of cases sourced by a real bash with stubbed completion builtins and a canary file; help texts and group titles with soft and preserved line breaks, indented blocks and second paragraphs",
   note="no zsh/fish/elvish binaries in the sandbox: zsh text is executed under bash with stubs (shared quoting semantics), fish/elvish are checked against their line format; candidates/groups never contain tab/newline",
   tech="property-based testing + differential (revision 0 vs shell renderers) + lexer + execution in a sandboxed bash"),
 "C16": dict(
   text="property-based search over definitions whose texts carry HTML/roff/markdown injections; the three renderers must return; completeness against what the console help of every described level shows; HTML tag lexer (allowed tags, balance) and roff lexer (allowed requests and escapes) with a decode-and-find round trip for every injected text; command paths that collide once joined with `-` or lower-cased still get one section each",
   note="no groff/mandoc/HTML parser available: lexers written from the formats the renderers emit are the trusted base",
   tech="property-based testing: validity lexers + round-trip (decode escapes, find the user's text) + completeness against --help"),
 "C11": dict(
   text="property-based differential between in-process run_inner and the real OptionParser::run() in a spawned process (40k spawns in quick): same text on the same stream, same exit status, body reached iff a value was produced, program name from argv[0] incl. non-UTF-8/empty/path forms; independent rule: stdout with status 0 only when a help/version flag is on the line (or a level with fallback_to_usage got no item)",
   note="trusted: the `subject` executable decodes the same choice bytes with the same generator; `--bpaf-complete-style-*`/unknown revisions and NUL bytes are excluded",
   tech="property-based testing, differential (spawned process vs in-process prediction)"),
 "C18": dict(
   text="property-based search over env-backed items under every wrapper x lines x environment states (unset/empty/valid/invalid/non-UTF-8, undeclared variables) in single-threaded workers that own their environment; reference model with the env fallback rule, metamorphic (undeclared variables), help state text, ~3% cross-checked through a real child process with a real envp",
   note="trusted: reference model + env rule; workers are separate single-threaded processes so set_var/remove_var cannot race",
   tech="property-based testing against the reference grammar model extended with the documented env rule + metamorphic + child-process cross-check"),
 "C20": dict(
   text="differential over five builds of the same corpus runner (none / autocomplete / autocomplete+docgen+batteries+derive / dull-color / bright-color) on a proptest-generated corpus (40k cases quick); byte-identical dumps required; a difference is minimised across the two disagreeing builds; for 150 cases per run (1500 thorough) the message bpaf prints itself (print_message, the path of run()) to piped stdout/stderr is compared across the builds as well",
   note="trusted: the corpus decoder is feature independent (completers are simply not attached where the feature is absent); panic locations are not compared, messages are",
   tech="property-based testing, differential between cargo feature builds of one generated corpus"),
 "C17": dict(
   text="differential between #[derive(Bpaf)] and the documented hand-written equivalent over a generated family of types (96 per seed in quick, 320 in thorough; doc layouts and explicit overrides stratified over the type index; structs, enums, command enums, options structs embedding a parser-mode struct through external), both compiled into one executable and run on generated argument vectors (20k in quick): equal values, equal failure class, equal text, equal help; top-level command types with multi-word names, explicit header/footer on enum command variants",
   note="trusted: the twin printer in harness/src/c17gen.rs as a reading of the documented derive rules; a family that rustc rejects is the verdict derived-type-does-not-compile, any other build problem exit 2",
   tech="property-based testing, differential (derive macro vs generated hand-written combinators) over a seeded family of type definitions"),
}

PENDING_REASON = "check not built yet in this session (designed in DESIGN.md section 4; property-based testing applies to it)"

def main():
    props = [json.loads(l)["id"] for l in open("/verif/properties.jsonl")]
    checks = []
    for pid in props:
        if pid not in CHECKS:
            continue
        c = CHECKS[pid]
        checks.append({
            "property_id": pid,
            "quick_cmd": f"./check {pid} --tier quick",
            "thorough_cmd": f"./check {pid} --tier thorough",
            "evidence_file": f"/verif/evidence/{pid}.json",
            "replay_cmd_template": f"./check {pid} --replay {{path}}",
            "engine": "pbt",
            "level_claimed": {"category": "exploration", "text": c["text"], "design_ref": f"DESIGN.md section 4, {pid}"},
            "level_note": c["note"],
            "technique": c["tech"],
        })
    m = {
        "version": 1,
        "setup_cmd": "/verif/tools/setup.sh",
        "hooks": {
            "guard": "none (no source hooks: bpaf's public API is sufficient; the reserved cfg name bpaf_verif is unused)",
            "enable": "checks build /repo's working tree as a path dependency of /verif/harness (cargo build --release --offline); nothing to enable",
            "baseline_off_cmd": "/verif/tools/baseline.sh",
            "source_commits": [],
            "add_only": True,
        },
        "engines": [{
            "name": "pbt",
            "path": "/verif/harness",
            "serves_properties": [c["property_id"] for c in checks],
            "kind_free_text": "Rust crate: Spec interpreter over bpaf's public API, choice-sequence decoder, proptest driver sharded over 16 worker processes (plus cargo-fuzz targets and subprocess drivers), reference grammar model, lexers, evidence/replay/known-finding handling",
        }],
        "checks": checks,
        "not_applicable": [{"property_id": p, "reason": PENDING_REASON} for p in props if p not in CHECKS],
        "notes": "All checks are generated-input search against explicit oracles (DESIGN.md). ./check <id> rebuilds the harness against /repo's working tree first. Exit 2 = inconclusive/infrastructure, never a violation.",
    }
    json.dump(m, open("/verif/MANIFEST.json", "w"), indent=1)
    print("wrote MANIFEST.json with", len(checks), "checks")

main()
