#!/bin/bash
# Build everything the checks need from files on disk only (offline): the harness (pbt, subject)
# and the five feature builds of the C20 corpus runner. Checks rebuild incrementally themselves.
set -e
export CARGO_NET_OFFLINE=true
ROOT=$(dirname "$(dirname "$(readlink -f "$0")")")
mkdir -p "$ROOT/work"
cd "$ROOT/harness"
cargo build --release --offline --target-dir "$ROOT/work/target"
for spec in "none:" "autocomplete:autocomplete" "all:autocomplete,docgen,batteries,derive" "dull-color:dull-color" "bright-color:bright-color"; do
  name=${spec%%:*}; feats=${spec#*:}
  if [ -n "$feats" ]; then f="--features $feats"; else f=""; fi
  cargo build --release --offline --bin c20dump --no-default-features $f --target-dir "$ROOT/work/target-c20/$name" &
done
wait
echo setup done
