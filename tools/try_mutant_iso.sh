#!/bin/bash
# Like try_mutant.sh but without touching /repo: the change is applied to a scratch worktree of
# /repo's HEAD and the checks run from a scratch copy of /verif whose harness depends on that
# worktree. Several of these can run at once. Everything lives under /tmp/tm-<pid> and is removed.
#   tools/try_mutant_iso.sh <patch.diff> C01 C05 ...      (no ids: all checks)
set -u
P=$(readlink -f "$1"); shift
IDS="$@"
[ -z "$IDS" ] && IDS=$(python3 -c "import json;print(' '.join(c['property_id'] for c in json.load(open('/verif/MANIFEST.json'))['checks']))")
W=/tmp/tm-$$
mkdir -p $W/verif
cleanup() { git -C /repo worktree remove --force $W/repo >/dev/null 2>&1; rm -rf $W; }
trap cleanup EXIT
git -C /repo worktree add -q --detach $W/repo HEAD || exit 2
(cd $W/repo && git apply "$P") || { echo "patch does not apply"; exit 2; }
# the committed state of /verif (edits in progress in the working tree do not leak into the run)
git -C /verif archive HEAD -- check harness tools known_findings.json MANIFEST.json | tar -x -C $W/verif
mkdir -p $W/verif/evidence $W/verif/work
sed -i "s|path = \"/repo\"|path = \"$W/repo\"|" $W/verif/harness/Cargo.toml
# warm build cache (third-party crates); bpaf and the harness are rebuilt because their paths differ
[ -d /verif/work/target/release ] && mkdir -p $W/verif/work/target && cp -a /verif/work/target/release $W/verif/work/target/ 2>/dev/null
export BPAF_REPO=$W/repo
cd $W/verif
for id in $IDS; do
  out=$(./check $id --tier quick 2>&1); rc=$?
  sigs=$(echo "$out" | grep -E "^\s+signature:" | sed 's/^\s*signature: //' | sort -u | tr '\n' ';')
  echo "$id rc=$rc $(echo "$out" | grep -c '^VIOLATION') violations  $sigs"
  [ $rc -ge 2 ] && echo "$out" | tail -5 | sed 's/^/    /'
done
exit 0
