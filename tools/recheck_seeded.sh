#!/bin/bash
# Re-run every seeded change against the committed /verif and /repo HEAD (isolated copies):
# the check of the targeted property (or, where that is documented not to apply, the first check
# recorded as catching it) must still report it.   VERIF_SEED=n tools/recheck_seeded.sh [lanes]
LANES=${1:-4}
cd /verif
# RECHECK_FILTER=<regex> restricts the ids (e.g. '^C0[35]-'); the result file then gets a -partial suffix
ids=$(ls seeded | grep -E '^C[0-9]+-' | grep -E "${RECHECK_FILTER:-.}")
run_lane() {
  for id in "$@"; do
    p=$(python3 -c "
import json
m=json.load(open('/verif/seeded/$id/meta.json'))
t=m['breaks_property']
print(t if t in m['caught_by'] else m['caught_by'][0])")
    r=$(tools/try_mutant_iso.sh seeded/$id/patch.diff $p 2>/dev/null | grep -a -m1 -E "rc=|does not apply" | cut -c1-160)
    echo "$id via $r"
  done
}
i=0; declare -a L
for id in $ids; do L[$((i%LANES))]+=" $id"; i=$((i+1)); done
for k in $(seq 0 $((LANES-1))); do run_lane ${L[$k]} > /verif/work/recheck-$k.log 2>&1 & done
wait
OUT=/verif/seeded/RECHECK-seed${VERIF_SEED:-0}${RECHECK_FILTER:+-partial}.txt
cat /verif/work/recheck-*.log | sort > $OUT
rm -f /verif/work/recheck-*.log
echo "rechecked $(wc -l < $OUT) with VERIF_SEED=${VERIF_SEED:-0}; not caught: $(grep -vc 'rc=1' $OUT)"
grep -v "rc=1" $OUT || true
