#!/bin/bash
# Re-run every seeded change against the committed /verif and /repo HEAD (isolated copies):
# the check of the targeted property (or, where that is documented not to apply, the first check
# recorded as catching it) must still report it.   tools/recheck_seeded.sh [lanes]
LANES=${1:-4}
cd /verif
ids=$(ls seeded | grep -E '^C[0-9]+-' )
run_lane() {
  for id in "$@"; do
    p=$(python3 -c "
import json
m=json.load(open('/verif/seeded/$id/meta.json'))
t=m['breaks_property']
print(t if t in m['caught_by'] else m['caught_by'][0])")
    r=$(tools/try_mutant_iso.sh seeded/$id/patch.diff $p 2>&1 | head -1 | cut -c1-160)
    echo "$id via $r"
  done
}
i=0; declare -a L
for id in $ids; do L[$((i%LANES))]+=" $id"; i=$((i+1)); done
for k in $(seq 0 $((LANES-1))); do run_lane ${L[$k]} > /verif/work/recheck-$k.log 2>&1 & done
wait
cat /verif/work/recheck-*.log | sort > /verif/seeded/RECHECK.txt
echo "rechecked $(wc -l < /verif/seeded/RECHECK.txt); not caught: $(grep -vc 'rc=1' /verif/seeded/RECHECK.txt)"
grep -v 'rc=1' /verif/seeded/RECHECK.txt
