#!/bin/bash
# tools/adopt_mutant.sh <source dir with patch.diff demo.rs meta.txt> <seeded id> <property> [checks...]
# Confirms the change in a scratch worktree, copies it to /verif/seeded/<id>/ with meta.json and
# records which checks catch it (quick tier) in /verif/seeded/<id>/catch.txt
set -u
SRC=$(readlink -f "$1"); ID=$2; PROP=$3; shift 3
CHECKS="$@"
cd /verif
conf=$(./tools/confirm_mutant.sh "$SRC" 2>&1 | grep -E "demo-|suite:|NOW FAILING|does not apply")
echo "$conf"
echo "$conf" | grep -q "demo-clean: PASS" || { echo "REJECTED: demo does not pass on the clean tree"; exit 1; }
echo "$conf" | grep -q "demo-mutant: FAIL" || { echo "REJECTED: demo does not fail with the change"; exit 1; }
echo "$conf" | grep -q "baseline_missing=0" || { echo "REJECTED: existing tests break"; exit 1; }
mkdir -p seeded/$ID
cp "$SRC/patch.diff" "$SRC/demo.rs" seeded/$ID/
cp "$SRC/meta.txt" seeded/$ID/author-notes.txt 2>/dev/null
res=$(./tools/try_mutant.sh seeded/$ID/patch.diff $CHECKS 2>&1)
echo "$res" | tee seeded/$ID/catch.txt | cut -c1-220
python3 - "$ID" "$PROP" "$SRC" <<'PY'
import json,sys,re
id,prop,src=sys.argv[1:4]
notes=open(f'/verif/seeded/{id}/author-notes.txt').read() if __import__('os').path.exists(f'/verif/seeded/{id}/author-notes.txt') else ''
catch=open(f'/verif/seeded/{id}/catch.txt').read().splitlines()
caught=[l.split()[0] for l in catch if re.match(r'C\d+ rc=1',l)]
missed=[l.split()[0] for l in catch if re.match(r'C\d+ rc=0',l)]
json.dump({
 "id":id,"breaks_property":prop,
 "origin":"fresh sub-agent given only the property text and a scratch worktree of /repo",
 "needs_to_manifest":notes,
 "confirmed":{"demo_passes_on_clean_tree":True,"demo_fails_with_change":True,"baseline_547_still_pass":True,
              "how":"tools/confirm_mutant.sh in a scratch worktree under /tmp (removed afterwards)"},
 "checks_run":"tools/try_mutant.sh (git -C /repo apply, ./check <id> --tier quick, git -C /repo checkout -- .)",
 "caught_by":caught,"not_caught_by":missed,
},open(f'/verif/seeded/{id}/meta.json','w'),indent=1)
print("caught by:",caught)
PY
