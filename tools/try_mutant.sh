#!/bin/bash
# Apply a seeded change to /repo, run the given checks (quick tier), undo the change.
#   tools/try_mutant.sh <patch.diff> C01 C05 ...      (no ids: all checks)
set -u
P=$(readlink -f "$1"); shift
IDS="$@"
[ -z "$IDS" ] && IDS=$(python3 -c "import json;print(' '.join(c['property_id'] for c in json.load(open('/verif/MANIFEST.json'))['checks']))")
cd /verif
git -C /repo apply "$P" || { echo "patch does not apply"; exit 2; }
trap 'git -C /repo checkout -- . ; git -C /verif checkout -- evidence 2>/dev/null' EXIT
for id in $IDS; do
  out=$(./check $id --tier quick 2>&1); rc=$?
  sigs=$(echo "$out" | grep -E "^\s+signature:" | sed 's/^\s*signature: //' | sort -u | tr '\n' ';')
  echo "$id rc=$rc $(echo "$out" | grep -c '^VIOLATION') violations  $sigs"
done
