#!/bin/bash
# Run the repository's own test suite on a scratch copy of /repo's working tree (hooks: none are
# needed by this verification, so "guard off" is the plain tree) and compare with BASELINE.json.
# The copy lives outside /repo and /verif and is removed afterwards.
set -u
SCRATCH=${SCRATCH:-/tmp/bpaf-baseline-$$}
rm -rf "$SCRATCH"; mkdir -p "$SCRATCH"
rsync -a --exclude target --exclude .git /repo/ "$SCRATCH/repo/"
cd "$SCRATCH/repo" || exit 2
export CARGO_NET_OFFLINE=true CARGO_TARGET_DIR="$SCRATCH/target"
if cargo nextest --version >/dev/null 2>&1; then
  cargo nextest run --workspace --no-fail-fast --offline --test-threads 8 > "$SCRATCH/log" 2>&1
  python3 - "$SCRATCH/log" <<'PY'
import json,re,sys
base=json.load(open('/root/.vp/BASELINE.json'))
stable=set(base['stable_pass'])
passed=set(); failed=set()
for line in open(sys.argv[1],errors='replace'):
    m=re.match(r'\s+(PASS|FAIL)\s+\[[^\]]*\]\s+(?:\(\s*\d+/\d+\)\s+)?(\S+)\s+(\S+)',line)
    if m:
        name=m.group(2)+'::'+m.group(3)
        (passed if m.group(1)=='PASS' else failed).add(name)
missing=sorted(stable-passed)
print(f"passed={len(passed)} failed={len(failed)} baseline_stable={len(stable)} baseline_missing={len(missing)}")
for m in missing[:20]: print("  MISSING-FROM-PASSED:",m)
sys.exit(1 if missing else 0)
PY
  rc=$?
else
  cargo test --workspace --no-fail-fast --offline > "$SCRATCH/log" 2>&1; rc=$?
  tail -5 "$SCRATCH/log"
fi
cd /; [ -n "${KEEP:-}" ] || rm -rf "$SCRATCH"
exit $rc
