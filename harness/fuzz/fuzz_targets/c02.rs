#![no_main]
use libfuzzer_sys::fuzz_target;

// The same check_case the proptest driver uses, so coverage feedback explores the oracle.
fuzz_target!(|data: &[u8]| {
    bpaf_verif::fuzzing::run("C02", data);
});
