//! Small constructors for hand written definitions (regression cases, enumerations).

use crate::spec::*;

pub fn named(shorts: &str, longs: &[&str], kind: NamedKind) -> NamedSpec {
    NamedSpec {
        id: 0,
        shorts: shorts.chars().collect(),
        longs: longs.iter().map(|s| (*s).to_owned()).collect(),
        envs: Vec::new(),
        help: None,
        kind,
    }
}
pub fn sw(shorts: &str, longs: &[&str]) -> Node {
    Node::Named(named(shorts, longs, NamedKind::Switch))
}
pub fn rf(shorts: &str, longs: &[&str]) -> Node {
    Node::Named(named(shorts, longs, NamedKind::ReqFlag))
}
pub fn arg(shorts: &str, longs: &[&str], ty: Ty) -> Node {
    Node::Named(named(
        shorts,
        longs,
        NamedKind::Arg {
            ty,
            metavar: "ARG".into(),
            adjacent: false,
        },
    ))
}
pub fn arg_adj(shorts: &str, longs: &[&str], ty: Ty) -> Node {
    Node::Named(named(
        shorts,
        longs,
        NamedKind::Arg {
            ty,
            metavar: "ARG".into(),
            adjacent: true,
        },
    ))
}
pub fn with_help(n: Node, h: &str) -> Node {
    match n {
        Node::Named(mut x) => {
            x.help = Some(DocSpec::plain(h));
            Node::Named(x)
        }
        Node::Pos(mut p) => {
            p.help = Some(DocSpec::plain(h));
            Node::Pos(p)
        }
        other => other,
    }
}
pub fn with_env(n: Node, e: &str) -> Node {
    match n {
        Node::Named(mut x) => {
            x.envs.push(e.to_owned());
            Node::Named(x)
        }
        other => other,
    }
}
pub fn pos(mv: &str, ty: Ty) -> Node {
    Node::Pos(PosSpec {
        id: 0,
        metavar: mv.into(),
        ty,
        help: None,
        strict: Strictness::Unrestricted,
    })
}
pub fn pos_s(mv: &str, ty: Ty, strict: Strictness) -> Node {
    Node::Pos(PosSpec {
        id: 0,
        metavar: mv.into(),
        ty,
        help: None,
        strict,
    })
}
pub fn seq(xs: Vec<Node>) -> Node {
    Node::Seq(xs)
}
pub fn adj(xs: Vec<Node>) -> Node {
    Node::Adjacent(xs)
}
pub fn alt(xs: Vec<Node>) -> Node {
    Node::Alt(xs)
}
pub fn opt(n: Node) -> Node {
    Node::Optional {
        n: n.b(),
        catch: false,
    }
}
pub fn many(n: Node) -> Node {
    Node::Many {
        n: n.b(),
        catch: false,
    }
}
pub fn some(n: Node) -> Node {
    Node::Some {
        n: n.b(),
        catch: false,
        msg: "need at least one".into(),
    }
}
pub fn fallback(n: Node) -> Node {
    Node::Fallback {
        n: n.b(),
        value: "dflt".into(),
        shown: false,
    }
}
pub fn hide(n: Node) -> Node {
    Node::Hide(n.b())
}
pub fn cmd(name: &str, level: Level) -> Node {
    Node::Cmd(Box::new(CmdSpec {
        name: name.into(),
        shorts: Vec::new(),
        longs: Vec::new(),
        help: None,
        adjacent: false,
        level,
    }))
}
pub fn lvl(body: Node) -> Level {
    let mut l = Level::simple(body);
    assign_ids(&mut l);
    l
}

/// give every leaf a unique id (depth first)
pub fn assign_ids(l: &mut Level) {
    fn go(n: &mut Node, next: &mut usize) {
        match n {
            Node::Named(x) => {
                x.id = *next;
                *next += 1;
            }
            Node::Pos(p) => {
                p.id = *next;
                *next += 1;
            }
            Node::Cmd(c) => go(&mut c.level.body, next),
            Node::Pure(_) | Node::Fail(_) | Node::Any(_) => {}
            Node::Seq(xs) | Node::Alt(xs) | Node::Adjacent(xs) => {
                for x in xs {
                    go(x, next);
                }
            }
            Node::Optional { n, .. }
            | Node::Many { n, .. }
            | Node::Some { n, .. }
            | Node::Collect { n, .. }
            | Node::Count(n)
            | Node::Last(n)
            | Node::Fallback { n, .. }
            | Node::FallbackWith { n, .. }
            | Node::Guard { n, .. }
            | Node::Parse { n, .. }
            | Node::Map(n)
            | Node::Hide(n)
            | Node::HideUsage(n)
            | Node::CustomUsage(n, _)
            | Node::GroupHelp(n, _)
            | Node::WithGroupHelp(n, _)
            | Node::Complete { n, .. }
            | Node::CompleteShell(n, _)
            | Node::Boxed(n) => go(n, next),
        }
    }
    let mut next = 0;
    go(&mut l.body, &mut next);
}
