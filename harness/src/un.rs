//! Choice-sequence reader: every generated case is a pure function of a byte string.
//! Exhausted input yields zeros, zero always selects the simplest alternative, and indices are
//! mapped monotonically so that shrinking bytes shrinks cases.

pub struct Un<'a> {
    d: &'a [u8],
    p: usize,
}

impl<'a> Un<'a> {
    pub fn new(d: &'a [u8]) -> Self {
        Un { d, p: 0 }
    }
    pub fn used(&self) -> usize {
        self.p
    }
    pub fn exhausted(&self) -> bool {
        self.p >= self.d.len()
    }
    pub fn byte(&mut self) -> u8 {
        let b = self.d.get(self.p).copied().unwrap_or(0);
        self.p += 1;
        b
    }
    /// value in 0..n (n up to 256), monotone in the byte
    pub fn below(&mut self, n: usize) -> usize {
        if n <= 1 {
            return 0;
        }
        if n <= 256 {
            (self.byte() as usize * n) >> 8
        } else {
            let v = ((self.byte() as usize) << 8) | self.byte() as usize;
            (v * n) >> 16
        }
    }
    /// value in lo..=hi
    pub fn range(&mut self, lo: usize, hi: usize) -> usize {
        lo + self.below(hi - lo + 1)
    }
    pub fn bool(&mut self) -> bool {
        self.byte() >= 128
    }
    /// true with probability num/256
    pub fn chance(&mut self, num: u32) -> bool {
        (self.byte() as u32) >= 256 - num.min(256)
    }
    pub fn pick<'b, T>(&mut self, xs: &'b [T]) -> &'b T {
        &xs[self.below(xs.len())]
    }
    /// weighted choice: index into weights
    pub fn weighted(&mut self, weights: &[u32]) -> usize {
        let total: u32 = weights.iter().sum();
        if total == 0 {
            return 0;
        }
        let mut x = (self.byte() as u32 * total) >> 8;
        for (i, w) in weights.iter().enumerate() {
            if x < *w {
                return i;
            }
            x -= *w;
        }
        weights.len() - 1
    }
    pub fn u16(&mut self) -> u16 {
        ((self.byte() as u16) << 8) | self.byte() as u16
    }
    /// raw bytes, length decided by the stream
    pub fn bytes(&mut self, max: usize) -> Vec<u8> {
        let n = self.below(max + 1);
        (0..n).map(|_| self.byte()).collect()
    }
    /// a permutation of 0..n (Fisher-Yates driven by the stream; all zero = identity)
    pub fn permutation(&mut self, n: usize) -> Vec<usize> {
        let mut v: Vec<usize> = (0..n).collect();
        for i in 0..n {
            let j = i + self.below(n - i);
            v.swap(i, j);
        }
        v
    }
}

/// FNV-1a, used for case hashes (never for anything that influences generation)
pub fn fnv(data: &[u8]) -> u64 {
    let mut h: u64 = 0xcbf29ce484222325;
    for b in data {
        h ^= *b as u64;
        h = h.wrapping_mul(0x100000001b3);
    }
    h
}

pub fn fnv_str(s: &str) -> u64 {
    fnv(s.as_bytes())
}

/// drop the bytes that are not part of a valid UTF-8 sequence (a legitimately typed U+FFFD stays)
pub fn drop_invalid_utf8(bytes: &[u8]) -> Vec<u8> {
    let mut out = Vec::with_capacity(bytes.len());
    let mut rest = bytes;
    loop {
        match std::str::from_utf8(rest) {
            Ok(s) => {
                out.extend_from_slice(s.as_bytes());
                return out;
            }
            Err(e) => {
                let (good, bad) = rest.split_at(e.valid_up_to());
                out.extend_from_slice(good);
                let skip = e.error_len().unwrap_or(bad.len());
                rest = &bad[skip..];
            }
        }
    }
}
