//! A small family shared by C08 and C10: a level whose last field is a choice between a
//! positional-like branch and one or two subcommands (`construct!([files, cmd])`, in either
//! order, the command bare or under fallback/optional).  The conventional and broad generators
//! only build choices between commands; this shape exercises the rule "the branch that entered a
//! command wins" and the propagation of a help request out of such a choice.

use crate::gen::*;
use crate::spec::*;
use crate::un::Un;
use crate::value::V;

#[derive(Clone, Debug, PartialEq, Eq)]
pub enum Expect {
    /// the command was entered and accepted: its value carries these own tokens
    Cmd { name: String, switch_on: Option<bool>, arg: Option<Vec<u8>> },
    /// the positional branch takes these words, in order
    Words(Vec<Vec<u8>>),
    /// the command was entered and does not accept what follows: stderr
    Reject,
    /// help of the command: contains `inside`, does not contain `outside`
    HelpOf { inside: String, outside: String },
}

pub struct Case {
    pub level: Level,
    pub argv: Vec<Vec<u8>>,
    pub expect: Expect,
    pub scenario: &'static str,
    /// names of the commands of the choice (not of an enclosing command)
    pub inner_cmds: Vec<String>,
}

#[derive(Clone, Copy, Debug, PartialEq, Eq)]
enum PKind {
    ManyStr,
    SomeStr,
    ReqU32,
    OptU32,
}

/// `only_help`: generate help scenarios only (C10)
pub fn decode(bytes: &[u8], only_help: bool) -> Case {
    let mut u = Un::new(bytes);
    let mut names = Names::new();
    names.ascii_only = true;
    // parent's own named items
    let mut fields: Vec<Node> = Vec::new();
    let mut parent_named: Vec<NamedSpec> = Vec::new();
    for _ in 0..u.below(3) {
        let n = if u.bool() {
            gen_named_leaf(&mut u, &mut names, NamedKind::Switch)
        } else {
            gen_named_leaf(
                &mut u,
                &mut names,
                NamedKind::Arg {
                    ty: Ty::Str,
                    metavar: "ARG".into(),
                    adjacent: false,
                },
            )
        };
        parent_named.push(n.clone());
        fields.push(if n.is_arg() {
            Node::Optional {
                n: Node::Named(n).b(),
                catch: false,
            }
        } else {
            Node::Named(n)
        });
    }
    // the positional-like branch
    let pk = *u.pick(&[PKind::ManyStr, PKind::SomeStr, PKind::ReqU32, PKind::OptU32]);
    let pos = |ty: Ty, names: &mut Names| {
        Node::Pos(PosSpec {
            id: names.id(),
            metavar: if ty == Ty::U32 { "NUM".into() } else { "FILE".into() },
            ty,
            help: None,
            strict: Strictness::Unrestricted,
        })
    };
    let p_branch = match pk {
        PKind::ManyStr => Node::Many {
            n: pos(Ty::Str, &mut names).b(),
            catch: false,
        },
        PKind::SomeStr => Node::Some {
            n: pos(Ty::Str, &mut names).b(),
            catch: false,
            msg: "need a file".into(),
        },
        PKind::ReqU32 => pos(Ty::U32, &mut names),
        PKind::OptU32 => Node::Optional {
            n: pos(Ty::U32, &mut names).b(),
            catch: false,
        },
    };
    // commands
    let n_cmd = 1 + usize::from(u.chance(80));
    let mut cmds: Vec<(CmdSpec, NamedSpec, Option<NamedSpec>)> = Vec::new();
    let mut nums: Vec<NamedSpec> = Vec::new();
    let mut has_pos: Vec<bool> = Vec::new();
    let mut branches: Vec<Node> = vec![p_branch];
    for k in 0..n_cmd {
        let name = names.cmd(&mut u);
        let own_sw = gen_named_leaf(&mut u, &mut names, NamedKind::Switch);
        let own_arg = if u.bool() {
            Some(gen_named_leaf(
                &mut u,
                &mut names,
                NamedKind::Arg {
                    ty: Ty::Str,
                    metavar: "OWN".into(),
                    adjacent: false,
                },
            ))
        } else {
            None
        };
        let mut own_fields = vec![Node::Named(own_sw.clone())];
        if let Some(a) = &own_arg {
            own_fields.push(Node::Optional {
                n: Node::Named(a.clone()).b(),
                catch: false,
            });
        }
        // a typed item of the command under a wrapper that reacts to absence only
        let own_num = gen_named_leaf(
            &mut u,
            &mut names,
            NamedKind::Arg {
                ty: Ty::U32,
                metavar: "NUM".into(),
                adjacent: false,
            },
        );
        own_fields.push(match u.below(3) {
            0 => Node::Optional {
                n: Node::Named(own_num.clone()).b(),
                catch: false,
            },
            1 => Node::Fallback {
                n: Node::Named(own_num.clone()).b(),
                value: "num-dflt".into(),
                shown: false,
            },
            _ => Node::Many {
                n: Node::Named(own_num.clone()).b(),
                catch: false,
            },
        });
        nums.push(own_num);
        // and sometimes a typed positional of its own at the end
        let own_pos = u.chance(100);
        if own_pos {
            own_fields.push(Node::Optional {
                n: Node::Pos(PosSpec {
                    id: names.id(),
                    metavar: "COUNT".into(),
                    ty: Ty::U32,
                    help: None,
                    strict: Strictness::Unrestricted,
                })
                .b(),
                catch: false,
            });
        }
        has_pos.push(own_pos);
        let mut level = Level::simple(Node::Seq(own_fields));
        level.info.header = Some(DocSpec::plain(format!("InsideCmd{}Marker", k)));
        let short = if u.chance(60) { names.cmd_short(&mut u) } else { None };
        let c = CmdSpec {
            name,
            shorts: short.into_iter().collect(),
            longs: Vec::new(),
            help: None,
            adjacent: false,
            level,
        };
        let node = Node::Cmd(Box::new(c.clone()));
        branches.push(match u.below(4) {
            0 => node,
            1 => Node::Fallback {
                n: node.b(),
                value: "cmd-dflt".into(),
                shown: false,
            },
            2 => Node::FallbackWith {
                n: node.b(),
                ok: true,
                value: "cmd-dflt-with".into(),
            },
            _ => Node::Optional {
                n: node.b(),
                catch: false,
            },
        });
        cmds.push((c, own_sw, own_arg));
    }
    let order = u.permutation(branches.len());
    let alt = Node::Alt(order.iter().map(|i| branches[*i].clone()).collect());
    fields.push(alt);
    let mut level = Level::simple(Node::Seq(fields));
    level.info.header = Some(DocSpec::plain("ParentLevelMarker"));

    // the line
    let spell_named = |u: &mut Un, names: &mut Names, n: &NamedSpec| -> (Vec<Vec<u8>>, Option<Vec<u8>>) {
        let value = if n.is_arg() {
            Some(format!("v{}", names.val()).into_bytes())
        } else {
            None
        };
        let o = Occ {
            leaf: n.id,
            alias: pick_alias(u, n),
            value: value.clone(),
            adjacent_only: false,
        };
        let ss = spellings_for(&o);
        (spell(&o, *u.pick(&ss)), value)
    };
    let mut parent_items: Vec<Vec<Vec<u8>>> = Vec::new();
    for n in &parent_named {
        if u.bool() {
            parent_items.push(spell_named(&mut u, &mut names, n).0);
        }
    }
    let scenario_ix = if only_help { 3 } else { u.weighted(&[4, 2, 3, 3]) };
    let mut argv: Vec<Vec<u8>> = Vec::new();
    let (expect, scenario): (Expect, &'static str) = match scenario_ix {
        2 => {
            // words for the positional branch; the parent's options anywhere among them
            let words: Vec<Vec<u8>> = match pk {
                PKind::ManyStr | PKind::SomeStr => (0..1 + u.below(3))
                    .map(|_| format!("w{}", names.val()).into_bytes())
                    .collect(),
                PKind::ReqU32 | PKind::OptU32 => vec![format!("{}", 100 + names.val()).into_bytes()],
            };
            let mut slots: Vec<Vec<Vec<u8>>> = words.iter().map(|w| vec![w.clone()]).collect();
            // keep the order of the words: insert the named items at random places
            for p in parent_items {
                let at = u.below(slots.len() + 1);
                slots.insert(at, p);
            }
            for s in slots {
                argv.extend(s);
            }
            (Expect::Words(words), "words")
        }
        k => {
            // the command is entered: parent's options before its name
            for p in parent_items {
                argv.extend(p);
            }
            let (c, own_sw, own_arg) = u.pick(&cmds).clone();
            let all = c.all_names();
            argv.push(u.pick(&all).as_bytes().to_vec());
            let mut own: Vec<Vec<Vec<u8>>> = Vec::new();
            let sw_on = u.bool();
            if sw_on {
                own.push(spell_named(&mut u, &mut names, &own_sw).0);
            }
            let mut arg_val = None;
            if let Some(a) = &own_arg {
                if u.bool() {
                    let (items, v) = spell_named(&mut u, &mut names, a);
                    own.push(items);
                    arg_val = v;
                }
            }
            let perm = u.permutation(own.len());
            let own: Vec<Vec<Vec<u8>>> = perm.into_iter().map(|i| own[i].clone()).collect();
            match k {
                0 => {
                    for o in own {
                        argv.extend(o);
                    }
                    (
                        Expect::Cmd {
                            name: c.name.clone(),
                            switch_on: Some(sw_on),
                            arg: arg_val,
                        },
                        "command",
                    )
                }
                1 if u.bool() => {
                    // the command's typed item with a value that does not convert: the run fails
                    // (the other branch must not take the words over)
                    let k = cmds.iter().position(|x| x.0.name == c.name).unwrap_or(0);
                    let num = &nums[k];
                    for o in own {
                        argv.extend(o);
                    }
                    let name = match pick_alias(&mut u, num) {
                        Alias::Short(ch) => format!("-{}", ch),
                        Alias::Long(l) => format!("--{}", l),
                    };
                    if has_pos[k] && u.bool() {
                        // a word that is not a number where the command expects one: the other
                        // branch could take the whole line as words, and must not
                        argv.push(b"1x".to_vec());
                    } else if u.bool() {
                        argv.push(format!("{}=1x", name).into_bytes());
                    } else {
                        argv.push(name.into_bytes());
                        argv.push(b"1x".to_vec());
                    }
                    (Expect::Reject, "command+invalid-typed-value")
                }
                1 => {
                    let at = u.below(own.len() + 1);
                    for (i, o) in own.iter().enumerate() {
                        if i == at {
                            argv.push(b"zzextra".to_vec());
                        }
                        argv.extend(o.iter().cloned());
                    }
                    if at == own.len() {
                        argv.push(b"zzextra".to_vec());
                    }
                    (Expect::Reject, "command+surplus-word")
                }
                _ => {
                    let help: &[u8] = if u.bool() { b"--help" } else { b"-h" };
                    let at = u.below(own.len() + 1);
                    let junk = u.chance(60);
                    for (i, o) in own.iter().enumerate() {
                        if i == at {
                            argv.push(help.to_vec());
                        }
                        argv.extend(o.iter().cloned());
                    }
                    if at == own.len() {
                        argv.push(help.to_vec());
                    }
                    if junk {
                        // something the command does not accept: help still wins
                        argv.push(b"--zzz-unknown".to_vec());
                    }
                    let k = cmds.iter().position(|x| x.0.name == c.name).unwrap_or(0);
                    (
                        Expect::HelpOf {
                            inside: format!("InsideCmd{}Marker", k),
                            outside: "ParentLevelMarker".into(),
                        },
                        "command+help",
                    )
                }
            }
        }
    };
    // sometimes the whole level sits below an outer command (depth 2)
    let (level, argv) = if u.chance(90) {
        let outer = names.cmd(&mut u);
        let mut a = vec![outer.as_bytes().to_vec()];
        a.extend(argv);
        let mut top = Level::simple(Node::Seq(vec![Node::Alt(vec![Node::Cmd(Box::new(CmdSpec {
            name: outer,
            shorts: Vec::new(),
            longs: Vec::new(),
            help: None,
            adjacent: false,
            level,
        }))])]));
        top.info.header = Some(DocSpec::plain("OutermostLevelMarker"));
        (top, a)
    } else {
        (level, argv)
    };
    Case {
        level,
        argv,
        expect,
        scenario,
        inner_cmds: cmds.iter().map(|c| c.0.name.clone()).collect(),
    }
}

/// the command value inside a result, if any
pub fn find_cmd(v: &V) -> Option<(&str, &V)> {
    match v {
        // the innermost command
        V::Cmd(n, inner) => find_cmd(inner).or(Some((n.as_str(), inner))),
        V::Opt(Some(x)) | V::Alt(_, x) => find_cmd(x),
        V::List(xs) | V::Tup(xs) => xs.iter().find_map(find_cmd),
        _ => None,
    }
}

pub fn check(case: &Case, ctx: &mut crate::engine::Ctx) -> crate::engine::Verdict {
    use crate::engine::Verdict;
    use crate::outcome::{guarded, run, show_argv, Outcome};
    let parser = match guarded(|| {
        let p = crate::build::build_level(&case.level);
        p.check_invariants(false);
        p
    }) {
        Ok(p) => p,
        Err(_) => return Verdict::Skip("definition rejected by check_invariants"),
    };
    let got = run(&parser, &case.argv);
    ctx.eval(1);
    ctx.class(&format!("choice-of-words-and-command:{}", case.scenario));
    if let Outcome::Panic { at, msg } = &got {
        return Verdict::fail(format!("panic@{}", at), msg.clone());
    }
    let describe = || {
        format!(
            "{} on {:?} -> {}",
            show_level(&case.level),
            show_argv(&case.argv),
            got.short()
        )
    };
    match (&case.expect, &got) {
        (Expect::Cmd { name, switch_on, arg }, Outcome::Value(v)) => match find_cmd(v) {
            Some((n, inner)) if n == name => {
                let mut leaves = Vec::new();
                inner.leaves(&mut leaves);
                let arg_ok = match arg {
                    Some(a) => leaves.contains(a),
                    None => leaves.is_empty(),
                };
                let sw_ok = match (switch_on, inner) {
                    (Some(b), V::Tup(xs)) => xs.first() == Some(&V::Bool(*b)),
                    _ => true,
                };
                if arg_ok && sw_ok {
                    Verdict::Pass
                } else {
                    Verdict::fail("words-or-command/command-value-wrong", describe())
                }
            }
            _ => Verdict::fail("words-or-command/command-name-taken-as-word", describe()),
        },
        (Expect::Cmd { .. }, _) => Verdict::fail("words-or-command/command-not-entered", describe()),
        (Expect::Words(ws), Outcome::Value(v)) => {
            if find_cmd(v).map_or(false, |(n, _)| case.inner_cmds.iter().any(|c| c == n)) {
                return Verdict::fail("words-or-command/command-entered-without-its-name", describe());
            }
            let mut leaves = Vec::new();
            v.leaves(&mut leaves);
            let got_words: Vec<&Vec<u8>> = leaves.iter().filter(|l| ws.contains(l)).collect();
            if got_words.len() == ws.len() && got_words.iter().zip(ws.iter()).all(|(a, b)| *a == b) {
                Verdict::Pass
            } else {
                Verdict::fail("words-or-command/words-lost-or-reordered", describe())
            }
        }
        (Expect::Words(_), _) => Verdict::fail("words-or-command/words-rejected", describe()),
        (Expect::Reject, Outcome::Stderr(t)) if !t.trim().is_empty() => Verdict::Pass,
        (Expect::Reject, _) => Verdict::fail(
            "words-or-command/surplus-word-after-command-accepted",
            describe(),
        ),
        (Expect::HelpOf { inside, outside }, Outcome::Stdout { text, .. }) => {
            if text.contains(inside.as_str()) && !text.contains(outside.as_str()) {
                Verdict::Pass
            } else {
                Verdict::fail("words-or-command/help-describes-wrong-level", describe())
            }
        }
        (Expect::HelpOf { .. }, _) => Verdict::fail("words-or-command/help-loses", describe()),
    }
}

pub fn describe(case: &Case) -> serde_json::Value {
    serde_json::json!({
        "family": "choice between a positional branch and subcommands",
        "definition": show_level(&case.level),
        "argv": crate::outcome::show_argv(&case.argv),
        "scenario": case.scenario,
        "expected": format!("{:?}", case.expect),
    })
}

fn fallback_cmd_level() -> Level {
    use crate::mk::*;
    let mut inner = lvl(seq(vec![sw("", &["alpha"])]));
    inner.info.header = Some(DocSpec::plain("InsideCmd0Marker"));
    let run = Node::Fallback {
        n: cmd("run", inner).b(),
        value: "cmd-dflt".into(),
        shown: false,
    };
    let mut l = lvl(seq(vec![alt(vec![many(pos("FILE", Ty::Str)), run])]));
    l.info.header = Some(DocSpec::plain("ParentLevelMarker"));
    l
}

/// fixed by f929b17: `[files, run.fallback(..)]` on `run zzextra` was accepted as two file names
pub fn reg_fallback_cmd_surplus(ctx: &mut crate::engine::Ctx) -> crate::engine::Verdict {
    let case = Case {
        level: fallback_cmd_level(),
        argv: vec![b"run".to_vec(), b"zzextra".to_vec()],
        expect: Expect::Reject,
        scenario: "command+surplus-word",
        inner_cmds: vec!["run".into()],
    };
    check(&case, ctx)
}

/// fixed by f929b17: `[files, run.fallback(..)]` on `run -h` printed the parent's help
pub fn reg_fallback_cmd_help(ctx: &mut crate::engine::Ctx) -> crate::engine::Verdict {
    let case = Case {
        level: fallback_cmd_level(),
        argv: vec![b"run".to_vec(), b"-h".to_vec()],
        expect: Expect::HelpOf {
            inside: "InsideCmd0Marker".into(),
            outside: "ParentLevelMarker".into(),
        },
        scenario: "command+help",
        inner_cmds: vec!["run".into()],
    };
    check(&case, ctx)
}
