//! Interpret a `Spec` into a real bpaf parser using bpaf's public API only.

use std::collections::HashSet;
use std::ffi::OsString;
use std::os::unix::ffi::OsStringExt;
use std::path::PathBuf;
use std::sync::Mutex;

use bpaf::doc::Style;
use bpaf::parsers::NamedArg;
use bpaf::{construct, Doc, OptionParser, Parser};

use crate::spec::*;
use crate::value::V;

pub type BP = Box<dyn Parser<V>>;

static INTERN: Mutex<Option<HashSet<&'static str>>> = Mutex::new(None);

/// leak a string once per distinct content
pub fn intern(s: &str) -> &'static str {
    let mut g = INTERN.lock().unwrap_or_else(|e| e.into_inner());
    let set = g.get_or_insert_with(HashSet::new);
    if let Some(x) = set.get(s) {
        return x;
    }
    let leaked: &'static str = Box::leak(s.to_owned().into_boxed_str());
    set.insert(leaked);
    leaked
}

pub fn style(k: StyleK) -> Style {
    match k {
        StyleK::Text => Style::Text,
        StyleK::Literal => Style::Literal,
        StyleK::Emphasis => Style::Emphasis,
        StyleK::Invalid => Style::Invalid,
        StyleK::Metavar => Style::Metavar,
        StyleK::Nested | StyleK::NestedEm => Style::Text,
    }
}

pub fn doc(d: &DocSpec) -> Doc {
    if d.is_plain() {
        return Doc::from(d.0[0].1.as_str());
    }
    if d.0.iter().any(|(k, _)| matches!(k, StyleK::Nested | StyleK::NestedEm)) {
        // built with the incremental API
        let mut out = Doc::default();
        for (k, s) in &d.0 {
            match k {
                StyleK::Text | StyleK::Metavar => out.text(s),
                StyleK::Literal => out.literal(s),
                StyleK::Emphasis => out.emphasis(s),
                StyleK::Invalid => out.invalid(s),
                StyleK::Nested => out.doc(&Doc::from(s.as_str())),
                StyleK::NestedEm => out.em_doc(&Doc::from(s.as_str())),
            }
        }
        return out;
    }
    let v: Vec<(&str, Style)> = d.0.iter().map(|(k, s)| (s.as_str(), style(*k))).collect();
    Doc::from(&v[..])
}

pub fn named(n: &NamedSpec) -> NamedArg {
    let mut it: Option<NamedArg> = None;
    // preserve declaration order inside each kind; shorts first, then longs, then envs
    for s in &n.shorts {
        it = Some(match it {
            None => bpaf::short(*s),
            Some(x) => x.short(*s),
        });
    }
    for l in &n.longs {
        let l = intern(l);
        it = Some(match it {
            None => bpaf::long(l),
            Some(x) => x.long(l),
        });
    }
    for e in &n.envs {
        let e = intern(e);
        it = Some(match it {
            None => bpaf::env(e),
            Some(x) => x.env(e),
        });
    }
    let mut it = it.expect("named item without any name");
    if let Some(h) = &n.help {
        it = it.help(doc(h));
    }
    it
}

fn os_to_v(o: OsString) -> V {
    V::Os(o.into_vec())
}

fn build_named(n: &NamedSpec) -> BP {
    let na = named(n);
    match &n.kind {
        NamedKind::Switch => na.switch().map(V::Bool).boxed(),
        NamedKind::Flag => na.flag(V::Bool(true), V::Bool(false)).boxed(),
        NamedKind::ReqFlag => na.req_flag(V::Unit).boxed(),
        NamedKind::Arg {
            ty,
            metavar,
            adjacent,
        } => {
            let mv = intern(metavar);
            macro_rules! arg {
                ($t:ty, $f:expr) => {{
                    let a = na.argument::<$t>(mv);
                    if *adjacent {
                        a.adjacent().map($f).boxed()
                    } else {
                        a.map($f).boxed()
                    }
                }};
            }
            match ty {
                Ty::Str => arg!(String, V::Str),
                Ty::Os => arg!(OsString, os_to_v),
                Ty::Path => arg!(PathBuf, |p: PathBuf| os_to_v(p.into_os_string())),
                Ty::U32 => arg!(u32, |n: u32| V::Num(i64::from(n))),
                Ty::I64 => arg!(i64, V::Num),
            }
        }
    }
}

fn build_pos(p: &PosSpec) -> BP {
    let mv = intern(&p.metavar);
    macro_rules! pos {
        ($t:ty, $f:expr) => {{
            let mut a = bpaf::positional::<$t>(mv);
            if let Some(h) = &p.help {
                a = a.help(doc(h));
            }
            match p.strict {
                Strictness::Unrestricted => a.map($f).boxed(),
                Strictness::Strict => a.strict().map($f).boxed(),
                Strictness::NonStrict => a.non_strict().map($f).boxed(),
            }
        }};
    }
    match p.ty {
        Ty::Str => pos!(String, V::Str),
        Ty::Os => pos!(OsString, os_to_v),
        Ty::Path => pos!(PathBuf, |p: PathBuf| os_to_v(p.into_os_string())),
        Ty::U32 => pos!(u32, |n: u32| V::Num(i64::from(n))),
        Ty::I64 => pos!(i64, V::Num),
    }
}

// one tuple struct per arity so that the generic `@fin` arm of the real construct! macro is used
struct W1(V);
struct W2(V, V);
struct W3(V, V, V);
struct W4(V, V, V, V);
struct W5(V, V, V, V, V);
struct W6(V, V, V, V, V, V);
struct W7(V, V, V, V, V, V, V);
struct W8(V, V, V, V, V, V, V, V);
struct W9(V, V, V, V, V, V, V, V, V);
struct W10(V, V, V, V, V, V, V, V, V, V);

pub const MAX_SEQ: usize = 10;

fn build_seq(xs: &[Node], adjacent: bool) -> BP {
    let mut ps: Vec<BP> = xs.iter().map(build_node).collect();
    assert!(!ps.is_empty() && ps.len() <= MAX_SEQ, "seq arity {}", ps.len());
    ps.reverse();
    macro_rules! fin {
        ($w:ident; $($f:ident),*) => {{
            $(let $f = ps.pop().unwrap();)*
            let con = construct!($w($($f),*));
            if adjacent {
                con.adjacent().map(|$w($($f),*)| V::Tup(vec![$($f),*])).boxed()
            } else {
                con.map(|$w($($f),*)| V::Tup(vec![$($f),*])).boxed()
            }
        }};
    }
    match xs.len() {
        1 => fin!(W1; a),
        2 => fin!(W2; a, b),
        3 => fin!(W3; a, b, c),
        4 => fin!(W4; a, b, c, d),
        5 => fin!(W5; a, b, c, d, e),
        6 => fin!(W6; a, b, c, d, e, f),
        7 => fin!(W7; a, b, c, d, e, f, g),
        8 => fin!(W8; a, b, c, d, e, f, g, h),
        9 => fin!(W9; a, b, c, d, e, f, g, h, i),
        10 => fin!(W10; a, b, c, d, e, f, g, h, i, j),
        _ => unreachable!(),
    }
}

#[cfg(feature = "autocomplete")]
pub fn shell(s: &ShellSpec) -> bpaf::ShellComp {
    use bpaf::ShellComp;
    match s {
        ShellSpec::File(m) => ShellComp::File {
            mask: m.as_deref().map(intern),
        },
        ShellSpec::Dir(m) => ShellComp::Dir {
            mask: m.as_deref().map(intern),
        },
        ShellSpec::Raw {
            bash,
            zsh,
            fish,
            elvish,
        } => ShellComp::Raw {
            bash: intern(bash),
            zsh: intern(zsh),
            fish: intern(fish),
            elvish: intern(elvish),
        },
        ShellSpec::Nothing => ShellComp::Nothing,
    }
}

/// the text a completer gets for filtering: the string form of the inner value
thread_local! {
    /// build every choice between alternatives with `bpaf::choice` instead of `construct!([..])`
    pub static ALT_VIA_CHOICE: std::cell::Cell<bool> = std::cell::Cell::new(false);
}

/// `build_level` with every choice spelled `bpaf::choice(..)`
pub fn build_level_via_choice(l: &Level) -> bpaf::OptionParser<V> {
    ALT_VIA_CHOICE.with(|c| c.set(true));
    let r = std::panic::catch_unwind(std::panic::AssertUnwindSafe(|| build_level(l)));
    ALT_VIA_CHOICE.with(|c| c.set(false));
    match r {
        Ok(p) => p,
        Err(e) => std::panic::resume_unwind(e),
    }
}

pub fn completion_key(v: &V) -> String {
    match v {
        V::Str(s) => s.clone(),
        V::Os(b) => String::from_utf8_lossy(b).into_owned(),
        V::Num(n) => n.to_string(),
        V::Opt(Some(v)) => completion_key(v),
        // a completer on top of many/some: the word being typed is the last one collected
        V::List(xs) => xs.last().map(completion_key).unwrap_or_default(),
        _ => String::new(),
    }
}

pub fn build_node(n: &Node) -> BP {
    match n {
        Node::Named(x) => build_named(x),
        Node::Pos(p) => build_pos(p),
        Node::Cmd(c) => {
            let name = intern(&c.name);
            let mut p = build_level(&c.level).command(name);
            for s in &c.shorts {
                p = p.short(*s);
            }
            for l in &c.longs {
                p = p.long(intern(l));
            }
            if let Some(h) = &c.help {
                p = p.help(doc(h));
            }
            if c.adjacent {
                p = p.adjacent();
            }
            let nm = c.name.clone();
            p.map(move |v| V::Cmd(nm.clone(), Box::new(v))).boxed()
        }
        Node::Pure(s) => bpaf::pure(V::Const(s.clone())).boxed(),
        Node::Any(a) => {
            use std::os::unix::ffi::OsStrExt;
            let prefixes = a.prefixes.clone();
            let mut p = bpaf::any::<OsString, _, _>(intern(&a.metavar), move |s: OsString| {
                let b = s.as_bytes();
                if prefixes.iter().any(|p| b.starts_with(p.as_bytes())) {
                    Some(V::Os(b.to_vec()))
                } else {
                    None
                }
            });
            if let Some(h) = &a.help {
                p = p.help(doc(h));
            }
            if a.anywhere {
                p.anywhere().boxed()
            } else {
                p.boxed()
            }
        }
        Node::Fail(m) => bpaf::fail::<V>(intern(m)).boxed(),
        Node::Seq(xs) => build_seq(xs, false),
        Node::Adjacent(xs) => build_seq(xs, true),
        Node::Alt(xs) => {
            assert!(!xs.is_empty());
            let mut it = xs.iter().enumerate().map(|(i, x)| {
                build_node(x)
                    .map(move |v| V::Alt(i, Box::new(v)))
                    .boxed()
            });
            if ALT_VIA_CHOICE.with(|c| c.get()) {
                // the run-time spelling of the same thing: `bpaf::choice([a, b, c])`
                let all: Vec<BP> = it.collect();
                return bpaf::choice(all).boxed();
            }
            let first = it.next().unwrap();
            // this is what construct!([a, b, c]) expands to
            #[allow(deprecated)]
            it.fold(first, |acc, x| acc.or_else(x).boxed())
        }
        Node::Optional { n, catch } => {
            let p = build_node(n).optional();
            let p = if *catch { p.catch() } else { p };
            p.map(|o| V::Opt(o.map(Box::new))).boxed()
        }
        Node::Many { n, catch } => {
            let p = build_node(n).many();
            let p = if *catch { p.catch() } else { p };
            p.map(V::List).boxed()
        }
        Node::Some { n, catch, msg } => {
            let p = build_node(n).some(intern(msg));
            let p = if *catch { p.catch() } else { p };
            p.map(V::List).boxed()
        }
        Node::Collect { n, catch } => {
            let p = build_node(n).collect::<Vec<V>>();
            let p = if *catch { p.catch() } else { p };
            p.map(V::List).boxed()
        }
        Node::Count(n) => build_node(n).count().map(V::Count).boxed(),
        Node::Last(n) => build_node(n).last().boxed(),
        Node::Fallback { n, value, shown } => {
            let p = build_node(n).fallback(V::Const(value.clone()));
            if *shown {
                p.display_fallback().boxed()
            } else {
                p.boxed()
            }
        }
        Node::FallbackWith { n, ok, value } => {
            let ok = *ok;
            let value = value.clone();
            build_node(n)
                .fallback_with(move || {
                    if ok {
                        Ok::<V, String>(V::Const(value.clone()))
                    } else {
                        Err(value.clone())
                    }
                })
                .boxed()
        }
        Node::Guard { n, pred, msg } => {
            let pred = pred.clone();
            build_node(n)
                .guard(move |v| pred.holds(v), intern(msg))
                .boxed()
        }
        Node::Parse { n, f } => {
            let f = f.clone();
            build_node(n).parse(move |v| f.apply(v)).boxed()
        }
        Node::Map(n) => build_node(n).map(|v| v).boxed(),
        Node::Hide(n) => build_node(n).hide().boxed(),
        Node::HideUsage(n) => build_node(n).hide_usage().boxed(),
        Node::CustomUsage(n, d) => build_node(n).custom_usage(doc(d)).boxed(),
        Node::GroupHelp(n, d) => build_node(n).group_help(doc(d)).boxed(),
        Node::WithGroupHelp(n, d) => {
            let d = d.clone();
            build_node(n)
                .with_group_help(move |meta| {
                    let mut r = doc(&d);
                    r.text(" ");
                    r.meta(meta, true);
                    r
                })
                .boxed()
        }
        Node::Complete { n, cands, group } => {
            #[cfg(feature = "autocomplete")]
            {
                let cands = cands.clone();
                let p = build_node(n).complete(move |v: &V| {
                    let key = completion_key(v);
                    cands
                        .iter()
                        .filter(|(c, _)| c.starts_with(&key))
                        .map(|(c, d)| (c.clone(), d.clone()))
                        .collect::<Vec<_>>()
                });
                match group {
                    Some(g) => p.group(g.clone()).boxed(),
                    None => p.boxed(),
                }
            }
            #[cfg(not(feature = "autocomplete"))]
            {
                let _ = (cands, group);
                build_node(n)
            }
        }
        Node::CompleteShell(n, s) => {
            #[cfg(feature = "autocomplete")]
            {
                build_node(n).complete_shell(shell(s)).boxed()
            }
            #[cfg(not(feature = "autocomplete"))]
            {
                let _ = s;
                build_node(n)
            }
        }
        Node::Boxed(n) => build_node(n).boxed(),
    }
}

fn names_arg(shorts: &[char], longs: &[String], help: &str) -> Option<NamedArg> {
    let mut it: Option<NamedArg> = None;
    for s in shorts {
        it = Some(match it {
            None => bpaf::short(*s),
            Some(x) => x.short(*s),
        });
    }
    for l in longs {
        let l = intern(l);
        it = Some(match it {
            None => bpaf::long(l),
            Some(x) => x.long(l),
        });
    }
    it.map(|x| x.help(help))
}

pub fn build_level(l: &Level) -> OptionParser<V> {
    let mut o = build_node(&l.body).to_options();
    let i = &l.info;
    if let Some(d) = &i.descr {
        o = o.descr(doc(d));
    }
    if let Some(d) = &i.header {
        o = o.header(doc(d));
    }
    if let Some(d) = &i.footer {
        o = o.footer(doc(d));
    }
    if let Some(d) = &i.usage {
        o = o.usage(doc(d));
    }
    if let Some(v) = &i.version {
        o = o.version(v.as_str());
    }
    if let Some((s, lg)) = &i.help_names {
        if let Some(na) = names_arg(s, lg, "Shows help") {
            o = o.help_parser(na);
        }
    }
    if let Some((s, lg)) = &i.version_names {
        if let Some(na) = names_arg(s, lg, "Shows version") {
            o = o.version_parser(na);
        }
    }
    if let Some(w) = i.max_width {
        o = o.max_width(w);
    }
    if i.fallback_to_usage {
        o = o.fallback_to_usage();
    }
    o
}
