//! Minimal POSIX-shell word lexer (the subset bash and zsh share): commands separated by
//! unquoted newlines or `;`, words separated by unquoted blanks, single quotes, backslash
//! escapes. Everything else that would make the shell interpret text (`$`, backquote, double
//! quotes, `&`, `|`, `<`, `>`, globs) outside single quotes is reported, because bpaf's
//! renderers are supposed to put every piece of data inside single quotes.

#[derive(Clone, Debug, PartialEq, Eq)]
pub struct Word {
    /// decoded text
    pub text: String,
    /// every character came from inside single quotes (or the word is a fixed bare token)
    pub fully_quoted: bool,
    /// the unquoted part of the word, as written
    pub bare: String,
}

#[derive(Clone, Debug, PartialEq, Eq)]
pub struct Command {
    pub words: Vec<Word>,
}

#[derive(Clone, Debug, PartialEq, Eq)]
pub enum LexError {
    UnterminatedQuote,
    /// an active metacharacter outside quotes
    Meta(char, String),
}

pub fn lex(text: &str) -> Result<Vec<Command>, LexError> {
    let mut cmds: Vec<Command> = Vec::new();
    let mut words: Vec<Word> = Vec::new();
    let mut cur: Option<Word> = None;
    let mut chars = text.chars().peekable();
    let flush_word = |cur: &mut Option<Word>, words: &mut Vec<Word>| {
        if let Some(w) = cur.take() {
            words.push(w);
        }
    };
    while let Some(c) = chars.next() {
        match c {
            '\'' => {
                let w = cur.get_or_insert(Word {
                    text: String::new(),
                    fully_quoted: true,
                    bare: String::new(),
                });
                loop {
                    match chars.next() {
                        Some('\'') => break,
                        Some(x) => w.text.push(x),
                        None => return Err(LexError::UnterminatedQuote),
                    }
                }
            }
            '\\' => {
                let w = cur.get_or_insert(Word {
                    text: String::new(),
                    fully_quoted: true,
                    bare: String::new(),
                });
                match chars.next() {
                    Some('\n') => {}
                    Some(x) => {
                        w.text.push(x);
                        // an escaped quote between two quoted parts is how a quote is written
                        if x != '\'' {
                            w.fully_quoted = false;
                            w.bare.push('\\');
                            w.bare.push(x);
                        }
                    }
                    None => return Err(LexError::Meta('\\', "trailing backslash".into())),
                }
            }
            ' ' | '\t' => flush_word(&mut cur, &mut words),
            '(' | ')' => {
                flush_word(&mut cur, &mut words);
                words.push(Word {
                    text: c.to_string(),
                    fully_quoted: false,
                    bare: c.to_string(),
                });
            }
            '\n' | ';' => {
                flush_word(&mut cur, &mut words);
                if !words.is_empty() {
                    cmds.push(Command {
                        words: std::mem::take(&mut words),
                    });
                }
            }
            '$' | '`' | '"' | '&' | '|' | '<' | '>' | '*' | '?' | '~' | '#' | '{' | '}' | '!' => {
                let ctx: String = cur.as_ref().map(|w| w.text.clone()).unwrap_or_default();
                return Err(LexError::Meta(c, ctx));
            }
            other => {
                let w = cur.get_or_insert(Word {
                    text: String::new(),
                    fully_quoted: true,
                    bare: String::new(),
                });
                w.text.push(other);
                w.bare.push(other);
                w.fully_quoted = false;
            }
        }
    }
    flush_word(&mut cur, &mut words);
    if !words.is_empty() {
        cmds.push(Command { words });
    }
    Ok(cmds)
}

/// quote a string the way a shell needs it (used only to build the stub scripts)
pub fn quote(s: &str) -> String {
    let mut r = String::from("'");
    for c in s.chars() {
        if c == '\'' {
            r.push_str("'\\''");
        } else {
            r.push(c);
        }
    }
    r.push('\'');
    r
}
