pub mod sh;
