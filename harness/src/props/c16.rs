//! C16 — generated documentation (markdown, html, manpage) is complete and well-formed.

use serde_json::{json, Value};

use crate::broad::*;
use crate::build::build_level;
use crate::engine::{Ctx, Prop, Regression, Verdict};
use crate::gen::*;
use crate::outcome::guarded;
use crate::props::c10::levels_with_paths;
use crate::props::c12::{things, Thing};
use crate::spec::*;
use crate::un::{fnv_str, Un};

pub struct C16;

pub const INJECT: &[&str] = &[
    "<b>", "</p>", "&amp;", "<script>x</script>", "\\fB", "\\\"cmt", "\\n(xx", "\\*(zz", "\\$1",
    "\\\\", "\n.TH x", "\n'ap", "\n.SH y", "`tick`", "[a](b)", "*x*", "_y_", " -- ", "-", "a\\b",
    "<", ">", "<br>", "\n\n.PP", "é\\(aq", "\\", "x\\",
];

pub struct Case {
    pub level: Level,
    /// (id token, full text) of every injected text that must be visible
    pub visible: Vec<(String, String)>,
    pub hidden: Vec<String>,
    pub n_inject: usize,
}

fn cfg() -> BroadCfg {
    BroadCfg {
        max_fields: 5,
        help: HelpGen::None,
        version: true,
        odd_groups: true,
        ..BroadCfg::default()
    }
}

struct Inj<'a> {
    u: &'a mut Un<'a>,
}

fn mk_text(u: &mut Un, names: &mut Names, leading: bool) -> (String, String) {
    let id = names.val();
    let inj = *u.pick(INJECT);
    let a = format!("Zq{}z", id);
    let text = if u.chance(30) {
        // the injection sits in a preformatted (4-space indented) code line after an empty line
        format!("{} intro\n\n    {}Yq{}y", a, inj.replace('\n', ""), id)
    } else if leading && u.chance(80) {
        // injection at the very start of the text
        format!("{}{} Yq{}y", inj.trim_start_matches('\n'), a, id)
    } else {
        format!("{}{}Yq{}y", a, inj, id)
    };
    (a, text)
}

fn inject(n: &mut Node, u: &mut Un, names: &mut Names, hidden: bool, vis: &mut Vec<(String, String)>, hid: &mut Vec<String>) {
    let mut put = |d: &mut Option<DocSpec>, u: &mut Un, names: &mut Names, hidden: bool, vis: &mut Vec<(String, String)>, hid: &mut Vec<String>| {
        if u.chance(170) {
            let (id, text) = mk_text(u, names, true);
            *d = Some(if u.chance(40) && text.starts_with(&id) && !text.contains("\n\n") {
                // the same text cut into styled fragments that touch each other: literal,
                // emphasis, invalid, plain (style changes must nest properly in HTML)
                let rest = &text[id.len()..];
                let mid = rest.char_indices().nth(rest.chars().count() / 2).map_or(0, |x| x.0);
                DocSpec(vec![
                    (StyleK::Literal, id.clone()),
                    (StyleK::Emphasis, rest[..mid].to_owned()),
                    (StyleK::Invalid, rest[mid..].to_owned()),
                ])
            } else {
                DocSpec::plain(text.clone())
            });
            if hidden {
                hid.push(id);
            } else {
                vis.push((id, text));
            }
        }
    };
    match n {
        Node::Named(x) => {
            put(&mut x.help, u, names, hidden, vis, hid);
            if let NamedKind::Arg { metavar, .. } = &mut x.kind {
                if u.chance(40) {
                    *metavar = (*u.pick(&["<b>", "a.b", "x\\y", "lower", "Ü"])).to_owned();
                }
            }
        }
        Node::Pos(p) => put(&mut p.help, u, names, hidden, vis, hid),
        Node::Cmd(c) => {
            put(&mut c.help, u, names, hidden, vis, hid);
            for d in [&mut c.level.info.descr, &mut c.level.info.header, &mut c.level.info.footer] {
                // texts of a hidden command's own level are still rendered in its section
                // when the command is reachable... a hidden command is not listed, so its
                // section does not exist: treat them as hidden
                put(d, u, names, hidden, vis, hid);
            }
            inject(&mut c.level.body, u, names, hidden, vis, hid);
        }
        Node::GroupHelp(inner, d) => {
            if u.chance(150) {
                let (id, text) = mk_text(u, names, true);
                *d = DocSpec::plain(text.clone());
                if hidden {
                    hid.push(id);
                } else {
                    vis.push((id, text));
                }
            }
            inject(inner, u, names, hidden, vis, hid);
        }
        Node::Hide(inner) => inject(inner, u, names, true, vis, hid),
        Node::Pure(_) | Node::Fail(_) | Node::Any(_) => {}
        Node::Seq(xs) | Node::Alt(xs) | Node::Adjacent(xs) => {
            for x in xs {
                inject(x, u, names, hidden, vis, hid);
            }
        }
        Node::Optional { n, .. }
        | Node::Many { n, .. }
        | Node::Some { n, .. }
        | Node::Collect { n, .. }
        | Node::Count(n)
        | Node::Last(n)
        | Node::Fallback { n, .. }
        | Node::FallbackWith { n, .. }
        | Node::Guard { n, .. }
        | Node::Parse { n, .. }
        | Node::Map(n)
        | Node::HideUsage(n)
        | Node::CustomUsage(n, _)
        | Node::WithGroupHelp(n, _)
        | Node::Complete { n, .. }
        | Node::CompleteShell(n, _)
        | Node::Boxed(n) => inject(n, u, names, hidden, vis, hid),
    }
}

/// Command paths that look alike once joined or lower-cased: a sibling named `x-y` next to the
/// command `x` that has a subcommand `y`, or a sibling that differs from `x` by case only. Every
/// level still needs a section of its own.
fn collide_names(level: &mut Level, u: &mut Un) {
    if !u.chance(90) {
        return;
    }
    fn top_cmds<'a>(n: &'a mut Node, out: &mut Vec<&'a mut CmdSpec>) {
        match n {
            Node::Cmd(c) => out.push(&mut **c),
            Node::Named(_) | Node::Pos(_) | Node::Pure(_) | Node::Fail(_) | Node::Any(_) => {}
            other => {
                for c in other.children_mut() {
                    top_cmds(c, out);
                }
            }
        }
    }
    let by_case = u.bool();
    let mut cmds = Vec::new();
    top_cmds(&mut level.body, &mut cmds);
    if cmds.len() < 2 {
        return;
    }
    let taken: Vec<String> = cmds.iter().flat_map(|c| c.all_names()).collect();
    // the command whose path is imitated, and the sibling that gets the new name
    let (mut model, mut new_name) = (None, String::new());
    for (i, c) in cmds.iter().enumerate() {
        if by_case {
            let up = c.name.to_uppercase();
            if up != c.name && !taken.contains(&up) {
                model = Some(i);
                new_name = up;
                break;
            }
        } else if let Some(sub) = c.level.body.commands(false).first() {
            let joined = format!("{}-{}", c.name, sub.name);
            if !taken.contains(&joined) {
                model = Some(i);
                new_name = joined;
                break;
            }
        }
    }
    if let Some(i) = model {
        let j = if i == 0 { 1 } else { 0 };
        cmds[j].name = new_name;
    }
}

pub fn decode(bytes: &[u8]) -> Case {
    let mut u = Un::new(bytes);
    let mut names = Names::new();
    let mut level = gen_broad_level(&mut u, &mut names, &cfg(), 1);
    let mut visible = Vec::new();
    let mut hidden = Vec::new();
    for d in [&mut level.info.descr, &mut level.info.header, &mut level.info.footer] {
        if u.chance(150) {
            let (id, text) = mk_text(&mut u, &mut names, true);
            *d = Some(DocSpec::plain(text.clone()));
            visible.push((id, text));
        }
    }
    inject(&mut level.body, &mut u, &mut names, false, &mut visible, &mut hidden);
    collide_names(&mut level, &mut u);
    // texts attached to a group whose items are all hidden are not shown either: only demand
    // the ones that the console help of some level shows (checked by the caller)
    let n_inject = visible.len() + hidden.len();
    let _ = Inj { u: &mut Un::new(&[]) };
    Case {
        level,
        visible,
        hidden,
        n_inject,
    }
}

// ---------------------------------------------------------------------------------------------
// lexers
// ---------------------------------------------------------------------------------------------

const HTML_TAGS: &[&str] = &["p", "dl", "dt", "dd", "li", "div", "tt", "b", "i"];

/// Every `<` must start one of bpaf's tags; tags must balance. Returns the text with tags
/// removed and entities decoded.
pub fn lex_html(doc: &str) -> Result<String, String> {
    let mut out = String::new();
    let mut stack: Vec<String> = Vec::new();
    let mut rest = doc;
    while let Some(p) = rest.find('<') {
        out.push_str(&rest[..p]);
        let tail = &rest[p + 1..];
        let end = match tail.find('>') {
            Some(e) => e,
            None => return Err(format!("`<` without `>` near {:?}", &tail[..tail.len().min(30)])),
        };
        let tag = &tail[..end];
        if tag == "br" {
            // void
        } else if let Some(name) = tag.strip_prefix('/') {
            if !HTML_TAGS.contains(&name) {
                return Err(format!("closing tag </{}> is not one of bpaf's", name));
            }
            match stack.pop() {
                Some(top) if top == name => {}
                Some(top) => return Err(format!("</{}> closes <{}>", name, top)),
                None => return Err(format!("</{}> without an open tag", name)),
            }
        } else {
            let name = if tag == "div style='padding-left: 0.5em'" {
                "div"
            } else {
                tag
            };
            if !HTML_TAGS.contains(&name) {
                return Err(format!("<{}> is not one of bpaf's tags: user text opened a tag", tag));
            }
            stack.push(name.to_owned());
        }
        rest = &tail[end + 1..];
    }
    out.push_str(rest);
    if let Some(t) = stack.last() {
        return Err(format!("<{}> is never closed", t));
    }
    Ok(out.replace("&lt;", "<").replace("&gt;", ">"))
}

const ROFF_REQUESTS: &[&str] = &["TH", "SH", "SS", "TP", "PP", "nf", "fi", "ie", "el"];

/// Every control line must be one of bpaf's requests, every backslash one of bpaf's escapes.
/// Returns the visible text (escapes decoded, request names removed, arguments kept).
pub fn lex_roff(doc: &str) -> Result<String, String> {
    let mut out = String::new();
    for (ln, line) in doc.split('\n').enumerate() {
        let mut body = line;
        if line.starts_with('\'') {
            return Err(format!("line {} starts with the no-break control character: {:?}", ln + 1, line));
        }
        if let Some(r) = line.strip_prefix('.') {
            let name: String = r.chars().take_while(|c| c.is_ascii_alphabetic()).collect();
            if !ROFF_REQUESTS.contains(&name.as_str()) {
                return Err(format!("line {} is a roff request that bpaf does not emit: {:?}", ln + 1, line));
            }
            if name == "ie" || name == "el" {
                // the fixed apostrophe preamble
                continue;
            }
            body = &r[name.len()..];
        }
        let cs: Vec<char> = body.chars().collect();
        let mut i = 0;
        while i < cs.len() {
            if cs[i] != '\\' {
                out.push(cs[i]);
                i += 1;
                continue;
            }
            let next = cs.get(i + 1).copied();
            match next {
                Some('\\') => {
                    out.push('\\');
                    i += 2;
                }
                Some('-') => {
                    out.push('-');
                    i += 2;
                }
                Some('&') => i += 2,
                Some(' ') => {
                    out.push(' ');
                    i += 2;
                }
                Some('f') if matches!(cs.get(i + 2), Some('B' | 'I' | 'R' | 'P')) => i += 3,
                Some('*') if cs.get(i + 2) == Some(&'(') && cs.get(i + 3) == Some(&'A') && cs.get(i + 4) == Some(&'q') => {
                    out.push('\'');
                    i += 5;
                }
                other => {
                    return Err(format!(
                        "line {}: backslash followed by {:?} is not one of bpaf's escapes: {:?}",
                        ln + 1,
                        other,
                        line
                    ))
                }
            }
        }
        out.push('\n');
    }
    Ok(out)
}

fn metavar_fmt(mv: &str) -> String {
    if mv
        .chars()
        .all(|c| c.is_uppercase() || c.is_ascii_digit() || c == '-' || c == '_')
    {
        mv.to_owned()
    } else {
        format!("<{}>", mv)
    }
}

pub fn check_case(case: &Case, ctx: &mut Ctx) -> Verdict {
    let parser = match guarded(|| {
        let p = build_level(&case.level);
        p.check_invariants(false);
        p
    }) {
        Ok(p) => p,
        Err((at, msg)) => {
            return Verdict::fail(
                "generator/invariants",
                format!("check_invariants panicked at {}: {}", at, msg),
            )
        }
    };
    // (1) the renderers return
    #[cfg(feature = "docgen")]
    let (md, html, roff) = {
        let md = match guarded(|| parser.render_markdown("app")) {
            Ok(t) => t,
            Err((at, msg)) => return Verdict::fail(format!("panic@{}", at), format!("render_markdown: {}", msg)),
        };
        let html = match guarded(|| parser.render_html("app")) {
            Ok(t) => t,
            Err((at, msg)) => return Verdict::fail(format!("panic@{}", at), format!("render_html: {}", msg)),
        };
        let roff = match guarded(|| {
            parser.render_manpage("app", bpaf::doc::Section::General, None, None, None)
        }) {
            Ok(t) => t,
            Err((at, msg)) => return Verdict::fail(format!("panic@{}", at), format!("render_manpage: {}", msg)),
        };
        (md, html, roff)
    };
    #[cfg(not(feature = "docgen"))]
    let (md, html, roff) = (String::new(), String::new(), String::new());
    ctx.eval(3);

    let levels: Vec<(Vec<String>, &Level)> = levels_with_paths(&case.level)
        .into_iter()
        .filter(|(path, _)| {
            // a level is described iff every command on its path is visible
            let mut cur = &case.level;
            for name in path {
                let t = things(cur);
                let c = t.iter().find_map(|v| match v.thing {
                    Thing::Cmd(c) if c.name == *name => Some((c, v.hidden)),
                    _ => None,
                });
                match c {
                    Some((c, false)) => cur = &c.level,
                    _ => return false,
                }
            }
            true
        })
        .collect();
    let n_levels = levels.len();
    let line_start_injection = case
        .visible
        .iter()
        .any(|(_, t)| t.contains('\n') || t.starts_with('.') || t.starts_with('\'') || t.starts_with('<'));
    if n_levels >= 2 && line_start_injection {
        ctx.nontrivial(fnv_str(&format!("{:?}", case.level)));
    }
    ctx.class(&format!("levels:{}", n_levels.min(4)));
    let fail = |sig: &str, what: String, doc: &str| -> Verdict {
        let d: String = doc.chars().take(3000).collect();
        Verdict::fail(
            sig.to_owned(),
            format!("{}\n{}\ndocument:\n{}", show_level(&case.level), what, d),
        )
    };

    // (3) html
    let html_text = match lex_html(&html) {
        Ok(t) => t,
        Err(why) => return fail("html/malformed-or-injected-tag", why, &html),
    };
    // (4) roff
    let roff_text = match lex_roff(&roff) {
        Ok(t) => t,
        Err(why) => {
            let sig = if why.contains("backslash") {
                "roff/unescaped-backslash"
            } else {
                "roff/user-text-as-request"
            };
            return fail(sig, why, &roff);
        }
    };

    // (2) completeness: what the help of each level shows must be in every document
    let roff_upper = roff_text.to_uppercase();
    for (path, l) in &levels {
        let mut wanted: Vec<String> = Vec::new();
        for v in things(l) {
            if v.hidden {
                continue;
            }
            match v.thing {
                Thing::Named(x) => {
                    if v.in_adjacent {
                        continue;
                    }
                    if let Some(s) = x.shorts.first() {
                        wanted.push(format!("-{}", s));
                    }
                    if let Some(lg) = x.longs.first() {
                        wanted.push(format!("--{}", lg));
                    }
                    if let NamedKind::Arg { metavar, .. } = &x.kind {
                        wanted.push(metavar_fmt(metavar));
                    }
                }
                Thing::Pos(p) => {
                    if p.help.is_some() && !v.in_adjacent {
                        wanted.push(metavar_fmt(&p.metavar));
                    }
                }
                Thing::Cmd(c) => wanted.push(c.name.clone()),
            }
        }
        for w in &wanted {
            let md_w = w.replace('[', "\\[").replace(']', "\\]");
            if !md.contains(w.as_str()) && !md.contains(&md_w) {
                return fail("markdown/visible-item-missing", format!("level {:?}: {:?} is not mentioned", path, w), &md);
            }
            if !html_text.contains(w.as_str()) {
                return fail("html/visible-item-missing", format!("level {:?}: {:?} is not mentioned", path, w), &html);
            }
            if !roff_text.contains(w.as_str()) && !roff_upper.contains(&w.to_uppercase()) {
                return fail("roff/visible-item-missing", format!("level {:?}: {:?} is not mentioned", path, w), &roff);
            }
        }
        // the section of this level lists this level's own help and version flags
        {
            let title = std::iter::once("app".to_owned())
                .chain(path.iter().cloned())
                .collect::<Vec<_>>()
                .join(" ");
            let is_title = |ln: &str, t: &str| ln.starts_with('#') && ln.trim_start_matches('#').trim() == t;
            let section: String = if n_levels > 1 {
                let mut inside = false;
                let mut out = String::new();
                for ln in md.lines() {
                    if ln.starts_with('#') && ln.trim_start_matches('#').trim().starts_with("app") {
                        inside = is_title(ln, &title);
                        continue;
                    }
                    if inside {
                        out.push_str(ln);
                        out.push('\n');
                    }
                }
                out
            } else {
                md.clone()
            };
            if !section.is_empty() {
                let mut flags: Vec<String> = vec![format!("--{}", l.info.help_longs()[0])];
                if l.info.version.is_some() {
                    flags.push(format!("--{}", l.info.version_longs()[0]));
                }
                for f in &flags {
                    if !section.contains(f.as_str()) {
                        return fail(
                            "markdown/level-section-misses-its-help-or-version-flag",
                            format!("section {:?} does not mention {}", title, f),
                            &md,
                        );
                    }
                }
                // the same in the manpage: sections of subcommands start at a `.SH`/`.SS`
                // request whose argument is the upper-cased path
                if n_levels > 1 {
                    let want = title.to_uppercase();
                    let mut inside = false;
                    let mut sec = String::new();
                    let mut found = false;
                    for ln in roff.lines() {
                        if ln.starts_with(".SH") || ln.starts_with(".SS") {
                            let arg = ln[3..]
                                .replace("\\ ", " ")
                                .replace("\\-", "-")
                                .trim()
                                .trim_matches('"')
                                .to_uppercase();
                            if arg.starts_with("APP") {
                                inside = arg == want;
                                found |= inside;
                                continue;
                            }
                        }
                        if inside {
                            sec.push_str(&ln.replace("\\-", "-"));
                            sec.push('\n');
                        }
                    }
                    if found {
                        for f in &flags {
                            if !sec.contains(f.as_str()) {
                                return fail(
                                    "roff/level-section-misses-its-help-or-version-flag",
                                    format!("manpage section {:?} does not mention {}", want, f),
                                    &roff,
                                );
                            }
                        }
                        ctx.class("roff-section-flags-checked");
                    }
                }
            }
        }
        // the level has a section of its own
        if n_levels > 1 {
            let title = std::iter::once("app".to_owned())
                .chain(path.iter().cloned())
                .collect::<Vec<_>>()
                .join(" ");
            if !md.lines().any(|ln| ln.starts_with('#') && ln.trim_start_matches('#').trim() == title) {
                return fail("markdown/level-without-section", format!("no section titled {:?}", title), &md);
            }
        }
    }
    // injected texts: visible ones are shown with their text intact, hidden ones nowhere
    let shown_by_help: Vec<&(String, String)> = {
        // only texts that the console help of some described level shows are demanded
        let mut helps = String::new();
        for (path, _) in &levels {
            let mut argv: Vec<Vec<u8>> = path.iter().map(|p| p.as_bytes().to_vec()).collect();
            argv.push(b"--help".to_vec());
            argv.push(b"--help".to_vec());
            if let crate::outcome::Outcome::Stdout { text, .. } = crate::outcome::run(&parser, &argv) {
                helps.push_str(&text);
            }
            ctx.eval(1);
        }
        case.visible.iter().filter(|(id, _)| helps.contains(id.as_str())).collect()
    };
    for (id, text) in shown_by_help {
        if !md.contains(id.as_str()) {
            return fail("markdown/help-text-missing", format!("text {:?} is shown by --help but not in the document", text), &md);
        }
        if !html_text.contains(id.as_str()) {
            return fail("html/help-text-missing", format!("text {:?}", text), &html);
        }
        if !roff_upper.contains(&id.to_uppercase()) {
            return fail("roff/help-text-missing", format!("text {:?}", text), &roff);
        }
        // round trip: once escapes are decoded the user's text is there literally (modulo line
        // breaks, which renderers may turn into spaces, and upper casing in section titles)
        let squash = |s: &str| -> String {
            s.chars().filter(|c| !c.is_whitespace()).collect::<String>().to_uppercase()
        };
        let want = squash(text);
        if !squash(&roff_text).contains(&want) {
            return fail(
                "roff/user-text-altered",
                format!("after decoding bpaf's escapes the text {:?} is not in the manpage", text),
                &roff,
            );
        }
        if !squash(&html_text).contains(&want) {
            return fail(
                "html/user-text-altered",
                format!("after removing tags and entities the text {:?} is not in the page", text),
                &html,
            );
        }
    }
    for id in &case.hidden {
        for (name, doc) in [("markdown", &md), ("html", &html), ("roff", &roff)] {
            if doc.contains(id.as_str()) || doc.contains(&id.to_uppercase()) {
                return fail(
                    &format!("{}/hidden-item-documented", name),
                    format!("text {} belongs to a hidden item", id),
                    doc,
                );
            }
        }
    }
    Verdict::Pass
}

impl Prop for C16 {
    fn id(&self) -> &'static str {
        "C16"
    }
    fn cases(&self) -> (u64, u64) {
        (120_000, 500_000)
    }
    fn rule(&self) -> &'static str {
        "choice bytes -> broad definition (nested and hidden commands, groups, all wrappers) whose \
         help, description, header, footer, group and command texts are `Zq<n>z<injection>Yq<n>y` \
         with injections from a pool of HTML/roff/markdown metacharacters (tags, entities, \\fB, \
         \\\", \\n(xx, \\*(zz, \\$1, lone and trailing backslashes, `.TH`/`'x` after line breaks and \
         at the start of a text, backticks, links, emphasis), metavariables like <b> or x\\y -> \
         render_markdown, render_html, render_manpage. Oracle: (1) all three return; (2) every level \
         whose commands are all visible has a section, and every first short/long name, \
         metavariable, command name and injected text that the console --help of that level shows \
         occurs in each document (after undoing that renderer's escaping), texts of hidden items \
         occur nowhere; (3) HTML lexer: every `<` opens or closes one of bpaf's tags \
         (p dl dt dd li div tt b i br), tags balance; (4) roff lexer: every line starting with `.` \
         is one of TH SH SS TP PP nf fi ie el, none starts with `'`, every backslash starts one of \
         \\\\ \\- \\& \\<space> \\fB \\fI \\fR \\fP \\*(Aq, and after decoding them every injected \
         text is present literally (so a user backslash was doubled). Non-trivial: >=2 described \
         levels and an injection at a line start / text start; distinct by hash of the definition."
    }
    fn assumptions(&self) -> Vec<&'static str> {
        vec!["no groff/mandoc or HTML parser in the sandbox: well-formedness is decided by lexers written from the formats bpaf's renderers emit"]
    }
    fn check(&self, bytes: &[u8], ctx: &mut Ctx) -> Verdict {
        let case = decode(bytes);
        check_case(&case, ctx)
    }
    fn describe(&self, bytes: &[u8]) -> Value {
        let case = decode(bytes);
        json!({
            "definition": show_level(&case.level),
            "injected_texts": case.visible.iter().map(|x| x.1.clone()).collect::<Vec<_>>(),
            "hidden_texts": case.hidden,
        })
    }
    fn regressions(&self) -> Vec<Regression> {
        vec![Regression {
            name: "backslash-in-group-title",
            run: reg_group_title,
        }]
    }
}

fn reg_group_title(ctx: &mut Ctx) -> Verdict {
    use crate::mk::*;
    let text = "Zq1z\\fBYq1y".to_owned();
    let l = lvl(seq(vec![Node::GroupHelp(
        with_help(sw("a", &["alpha"]), "plain").b(),
        DocSpec::plain(text.clone()),
    )]));
    let case = Case {
        level: l,
        visible: vec![("Zq1z".into(), text)],
        hidden: vec![],
        n_inject: 1,
    };
    check_case(&case, ctx)
}
