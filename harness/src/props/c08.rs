//! C08 — subcommands scope what follows them.

use serde_json::{json, Value};

use crate::build::build_level;
use crate::engine::{Ctx, Prop, Verdict};
use crate::gen::*;
use crate::model::{model, MOut};
use crate::outcome::{guarded, run, show_argv, Outcome};
use crate::props::c10::standalone_help;
use crate::spec::*;
use crate::un::{fnv_str, Un};
use crate::value::V;

pub struct C08;

pub struct Case {
    pub level: Level,
    pub sent: LevelSent,
    pub expected: Option<V>,
    pub argv: Vec<Vec<u8>>,
    pub mutation: Option<String>,
    pub misplaced: bool,
}

fn depth_of(s: &LevelSent) -> usize {
    sent_depth(s)
}

fn nth_level_mut(s: &mut LevelSent, k: usize) -> &mut LevelSent {
    if k == 0 {
        s
    } else {
        nth_level_mut(&mut s.cmd.as_mut().unwrap().1, k - 1)
    }
}

fn levels_with_options(s: &LevelSent) -> usize {
    usize::from(!s.named.is_empty()) + s.cmd.as_ref().map_or(0, |(_, x)| levels_with_options(x))
}

pub fn decode(bytes: &[u8]) -> Case {
    let mut u = Un::new(bytes);
    let mut names = Names::new();
    let cfg = ConvCfg {
        max_named: 4,
        force_cmds: true,
        usage_fallback: true,
        ..ConvCfg::default()
    };
    let level = gen_conv_level(&mut u, &mut names, &cfg, 1);
    let (mut sent, expected) = gen_conv_sentence(&mut u, &mut names, &level);
    let depth = depth_of(&sent);
    let mut mutation = None;
    let mut misplaced = false;
    let mut expected = Some(expected);
    let all_cmd_names: Vec<String> = level
        .body
        .commands(true)
        .iter()
        .flat_map(|c| c.all_names())
        .collect();
    match u.weighted(&[5, 3, 2, 2, 2]) {
        1 if depth >= 2 => {
            // move a deeper level's option to the left of its command name
            let from = 1 + u.below(depth - 1);
            let n = nth_level_mut(&mut sent, from).named.len();
            if n > 0 {
                let at = u.below(n);
                let occ = nth_level_mut(&mut sent, from).named.remove(at);
                let to = u.below(from);
                mutation = Some(format!(
                    "option {:?} of level {} written at level {}",
                    occ.alias, from, to
                ));
                nth_level_mut(&mut sent, to).named.push(occ);
                misplaced = true;
                expected = None;
            }
        }
        2 if depth >= 2 => {
            // unknown command word instead of a command name
            let at = u.below(depth - 1);
            let l = nth_level_mut(&mut sent, at);
            if let Some((name, _)) = l.cmd.as_mut() {
                mutation = Some(format!("command {:?} replaced by an unknown word", name));
                *name = "nosuchcmd".to_owned();
                expected = None;
            }
        }
        3 if !all_cmd_names.is_empty() => {
            // the value of an argument equals a command name: still just a value
            let at = u.below(depth);
            let l = nth_level_mut(&mut sent, at);
            let name = u.pick(&all_cmd_names).clone();
            // only string valued arguments: find one by looking at the value shape
            if let Some(o) = l
                .named
                .iter_mut()
                .find(|o| o.value.as_ref().map_or(false, |v| v.starts_with(b"v")))
            {
                mutation = Some(format!("value of {:?} set to command name {:?}", o.alias, name));
                o.value = Some(name.into_bytes());
                expected = None;
            }
        }
        4 if !all_cmd_names.is_empty() => {
            // a command name where none is expected: after the innermost level's items
            let name = u.pick(&all_cmd_names).clone();
            let l = nth_level_mut(&mut sent, depth - 1);
            if l.cmd.is_none() && l.words.is_empty() {
                mutation = Some(format!("stray command name {:?} at the end", name));
                l.words.push(name.into_bytes());
                expected = None;
            }
        }
        _ => {}
    }
    let mut stats = RenderStats::default();
    let rcfg = RenderCfg {
        dashdash: mutation.is_none(),
        ..RenderCfg::default()
    };
    let argv = render_conv(&mut u, &sent, &rcfg, &mut stats);
    Case {
        level,
        sent,
        expected,
        argv,
        mutation,
        misplaced,
    }
}

impl Prop for C08 {
    fn id(&self) -> &'static str {
        "C08"
    }
    fn cases(&self) -> (u64, u64) {
        (150_000, 2_000_000)
    }
    fn rule(&self) -> &'static str {
        "choice bytes -> conventional command trees (depth <=3, <=4 named fields per level, names \
         distinct across levels, long and one-letter command aliases, optional and sibling \
         commands) -> sentence with every level's own options before the next command name -> one \
         structural mutation in 2/3 of the cases: a deeper level's option written to the left of its \
         command name, an unknown word instead of a command name, an argument value equal to a \
         command name, a stray command name where none is expected. Oracle: by-construction value \
         (unmutated) and the reference grammar model (all): accept with the value placed in the \
         enclosing result, or reject on stderr. For every depth k the line cut after the k-th \
         command name plus the help flag must print exactly the help of that level built alone, \
         which differs from the parent's. Non-trivial: depth >=2 with own options at >=2 levels, or a \
         misplacement mutant; distinct by hash of (definition, argv)."
    }
    fn check(&self, bytes: &[u8], ctx: &mut Ctx) -> Verdict {
        // one case in eight: a choice between a positional branch and subcommands (altcmd.rs)
        if bytes.first().map_or(false, |b| b % 8 == 7) {
            let c = crate::altcmd::decode(&bytes[1..], false);
            if c.argv.len() >= 2 {
                ctx.nontrivial(fnv_str(&format!("{:?}{:?}", c.level, c.argv)));
            }
            return crate::altcmd::check(&c, ctx);
        }
        let case = decode(bytes);
        let parser = match guarded(|| {
            let p = build_level(&case.level);
            p.check_invariants(false);
            p
        }) {
            Ok(p) => p,
            Err((at, msg)) => {
                return Verdict::fail(
                    "generator/invariants",
                    format!("check_invariants panicked at {}: {}", at, msg),
                )
            }
        };
        let got = run(&parser, &case.argv);
        ctx.eval(1);
        if let Outcome::Panic { at, msg } = &got {
            return Verdict::fail(format!("panic@{}", at), msg.clone());
        }
        let depth = depth_of(&case.sent);
        ctx.class(&format!("depth:{}", depth));
        if let Some(m) = &case.mutation {
            ctx.class(&format!("mutation:{}", m.split(' ').next().unwrap_or("")));
        }
        if (depth >= 2 && levels_with_options(&case.sent) >= 2) || case.misplaced {
            ctx.nontrivial(fnv_str(&format!("{:?}{:?}", case.level, case.argv)));
        }
        let m = model(&case.level, &case.argv);
        if let Some(exp) = &case.expected {
            if got != Outcome::Value(exp.clone()) {
                return Verdict::fail(
                    "sentence-not-accepted-with-its-value",
                    format!(
                        "{:?} denotes {} but bpaf returned {}",
                        show_argv(&case.argv),
                        exp,
                        got.short()
                    ),
                );
            }
            if m != MOut::Value(exp.clone()) {
                return Verdict::fail(
                    "harness/model-disagrees-with-construction",
                    format!("model {:?} vs {}", m, exp),
                );
            }
        } else {
            match (&m, &got) {
                (MOut::Outside(_), _) => return Verdict::Skip("outside the quantifier"),
                (MOut::Value(a), Outcome::Value(b)) if a == b => {}
                (MOut::Reject(_), Outcome::Stderr(t)) if !t.trim().is_empty() => {}
                // fallback_to_usage on a level that got no item: usage of that level
                (MOut::Help { path, .. }, Outcome::Stdout { text, .. })
                    if text.starts_with(&format!("Usage: {}", path.join(" "))) => {}
                (MOut::Value(a), o) => {
                    return Verdict::fail(
                        "sentence-rejected-or-wrong-value",
                        format!(
                            "{:?} ({:?}) denotes {} but bpaf returned {}",
                            show_argv(&case.argv),
                            case.mutation,
                            a,
                            o.short()
                        ),
                    )
                }
                (MOut::Reject(why), o) => {
                    return Verdict::fail(
                        if case.misplaced {
                            "misplaced-subcommand-option-accepted"
                        } else {
                            "non-sentence-not-rejected"
                        },
                        format!(
                            "{:?} ({:?}; {}) but bpaf returned {}",
                            show_argv(&case.argv),
                            case.mutation,
                            why,
                            o.short()
                        ),
                    )
                }
                (m, o) => {
                    return Verdict::fail(
                        "unexpected-help",
                        format!("{:?}: model {:?} bpaf {}", show_argv(&case.argv), m, o.short()),
                    )
                }
            }
        }

        // help after the k-th command name describes that level
        if case.mutation.is_none() {
            let mut cur_level = &case.level;
            let mut cur_sent = &case.sent;
            let mut path: Vec<String> = Vec::new();
            let mut prefix: Vec<Vec<u8>> = Vec::new();
            let mut parent_help: Option<String> = None;
            loop {
                let mut line = prefix.clone();
                line.push(b"--help".to_vec());
                let out = run(&parser, &line);
                ctx.eval(1);
                let expect = match standalone_help(cur_level, &path, b"--help") {
                    Outcome::Stdout { text, .. } => text,
                    other => {
                        return Verdict::fail("standalone-help-not-stdout", other.short());
                    }
                };
                match &out {
                    Outcome::Stdout { text, .. } if *text == expect => {}
                    other => {
                        return Verdict::fail(
                            "help-after-command-name-describes-wrong-level",
                            format!(
                                "{:?}: expected the help of level {:?}, got {}",
                                show_argv(&line),
                                path,
                                other.short()
                            ),
                        )
                    }
                }
                if let Some(p) = &parent_help {
                    if *p == expect {
                        return Verdict::fail(
                            "subcommand-help-equals-parent-help",
                            format!("{:?}", show_argv(&line)),
                        );
                    }
                }
                parent_help = Some(expect);
                // descend: this level's own items (rendered plainly) then the command name
                match &cur_sent.cmd {
                    Some((name, sub)) => {
                        for o in &cur_sent.named {
                            let sp = spellings_for(o)[0];
                            prefix.extend(spell(o, sp));
                        }
                        prefix.push(name.as_bytes().to_vec());
                        let c = cur_level
                            .body
                            .commands(false)
                            .into_iter()
                            .find(|c| c.all_names().contains(name))
                            .expect("command of the sentence");
                        path.push(c.name.clone());
                        cur_level = &c.level;
                        cur_sent = sub;
                    }
                    None => break,
                }
            }
            ctx.class("help-at-every-depth");
            // the same with every enclosing level's own items left out: the help of the
            // innermost command must still win over the parents' missing items
            if !path.is_empty() {
                let mut line: Vec<Vec<u8>> = Vec::new();
                let mut cs = &case.sent;
                while let Some((name, sub)) = &cs.cmd {
                    line.push(name.as_bytes().to_vec());
                    cs = sub;
                }
                line.push(b"--help".to_vec());
                let out = run(&parser, &line);
                ctx.eval(1);
                let expect = match standalone_help(cur_level, &path, b"--help") {
                    Outcome::Stdout { text, .. } => text,
                    other => return Verdict::fail("standalone-help-not-stdout", other.short()),
                };
                match &out {
                    Outcome::Stdout { text, .. } if *text == expect => {}
                    other => {
                        return Verdict::fail(
                            "help-after-command-name-loses-to-missing-parent-items",
                            format!(
                                "{:?}: expected the help of level {:?}, got {}",
                                show_argv(&line),
                                path,
                                other.short()
                            ),
                        )
                    }
                }
                ctx.class("help-with-parent-items-missing");
            }
        }
        Verdict::Pass
    }
    fn regressions(&self) -> Vec<crate::engine::Regression> {
        vec![crate::engine::Regression {
            name: "surplus-word-after-command-under-fallback-in-a-choice-with-positionals",
            run: crate::altcmd::reg_fallback_cmd_surplus,
        }]
    }
    fn describe(&self, bytes: &[u8]) -> Value {
        if bytes.first().map_or(false, |b| b % 8 == 7) {
            return crate::altcmd::describe(&crate::altcmd::decode(&bytes[1..], false));
        }
        let case = decode(bytes);
        json!({
            "definition": show_level(&case.level),
            "argv": show_argv(&case.argv),
            "mutation": case.mutation,
            "denotes": case.expected.as_ref().map(|v| v.to_string()),
            "model": format!("{:?}", model(&case.level, &case.argv)),
        })
    }
}
