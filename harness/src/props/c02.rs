//! C02 — equivalent spellings mean the same thing; values arrive byte-exact.

use std::collections::HashSet;

use serde_json::{json, Value};

use crate::broad::*;
use crate::build::build_level;
use crate::engine::{Ctx, Prop, Regression, Verdict};
use crate::gen::*;
use crate::outcome::{guarded, run, show_argv, show_bytes, Outcome};
use crate::spec::*;
use crate::un::{fnv_str, Un};

pub struct C02;

pub const SIG_GLUED_NON_UTF8: &str = "glued-value-not-utf8";
pub const SIG_HIDDEN_SHORT: &str = "hidden-short-clustered-or-glued";

pub struct Case {
    pub level: Level,
    pub lay: Layout,
    pub plan_a: SpellPlan,
    pub plan_b: SpellPlan,
    pub delivered: Vec<Vec<u8>>,
    pub mutated: Option<String>,
    pub hidden: Vec<usize>,
    pub excluded: u64,
}

pub fn hidden_leaves(level: &Level) -> Vec<usize> {
    fn go(n: &Node, hidden: bool, out: &mut Vec<usize>) {
        match n {
            Node::Named(x) => {
                if hidden {
                    out.push(x.id);
                }
            }
            Node::Hide(n) => go(n, true, out),
            Node::Cmd(c) => go(&c.level.body, hidden, out),
            other => {
                for c in other.children() {
                    go(c, hidden, out);
                }
            }
        }
    }
    let mut out = Vec::new();
    go(&level.body, false, &mut out);
    out
}

fn all_delivered(s: &BSent, out: &mut Vec<Vec<u8>>) {
    out.extend(s.delivered.iter().cloned());
    if let Some((_, sub)) = &s.cmd {
        all_delivered(sub, out);
    }
}

pub fn cfg() -> BroadCfg {
    BroadCfg {
        max_fields: 5,
        version: true,
        ..BroadCfg::default()
    }
}

pub fn decode(bytes: &[u8], known_glued: bool, known_hidden: bool) -> Case {
    let mut u = Un::new(bytes);
    let mut names = Names::new();
    let level = gen_broad_level(&mut u, &mut names, &cfg(), 1);
    let hidden = hidden_leaves(&level);
    let sent = SentGen {
        names: &mut names,
        mode: ValMode::Hard,
        in_group: false,
    }
    .level(&mut u, &level);
    let mut delivered = Vec::new();
    all_delivered(&sent, &mut delivered);
    let mut prep = prepare(&sent);
    let mut mutated = None;
    if u.chance(50) {
        // arity mutation at the sentence level: both spellings must still agree
        let li = u.below(prep.levels.len());
        let n = prep.levels[li].units.len();
        if n > 0 {
            let at = u.below(n);
            if u.bool() {
                prep.levels[li].units.remove(at);
                mutated = Some(format!("deleted unit {} of level {}", at, li));
            } else {
                let mut dup = prep.levels[li].units[at].clone();
                for it in &mut dup.items {
                    it.uid += 10_000;
                }
                prep.levels[li].units.insert(at, dup);
                mutated = Some(format!("duplicated unit {} of level {}", at, li));
            }
        }
    }
    let lay = layout(&mut u, &prep, true, true);
    let opts = SpellOpts {
        clusters: true,
        no_glued_non_utf8: known_glued,
        no_hidden_in_cluster: if known_hidden { hidden.clone() } else { Vec::new() },
    };
    let mut excluded = 0;
    let mut plan_a = plan_spelling(&mut u, &lay, &opts, &mut excluded);
    let mut plan_b = plan_spelling(&mut u, &lay, &opts, &mut excluded);
    if known_hidden {
        // hidden short arguments are never glued either
        for plan in [&mut plan_a, &mut plan_b] {
            for p in plan.plan.iter_mut() {
                if let Some(LItem {
                    kind: LKind::Occ(o),
                    ..
                }) = lay.items.iter().find(|i| i.uid == p.0)
                {
                    if hidden.contains(&o.leaf) && p.1 == Spelling::Glued {
                        p.1 = Spelling::Equals;
                        excluded += 1;
                    }
                }
            }
        }
    }
    Case {
        level,
        lay,
        plan_a,
        plan_b,
        delivered,
        mutated,
        hidden,
        excluded,
    }
}

fn opts_for(case: &Case, known_hidden: bool) -> SpellOpts {
    SpellOpts {
        clusters: true,
        no_glued_non_utf8: false,
        no_hidden_in_cluster: if known_hidden {
            case.hidden.clone()
        } else {
            Vec::new()
        },
    }
}

fn value_class(v: &Option<Vec<u8>>) -> &'static str {
    match v {
        None => "flag",
        Some(v) if v.is_empty() => "empty",
        Some(v) if std::str::from_utf8(v).is_err() => "non-utf8",
        Some(v) if v[0] == b'-' => "leading-dash",
        Some(v) if v.contains(&b'=') => "has-eq",
        Some(v) if v.iter().any(|b| b.is_ascii_whitespace()) => "has-space",
        Some(v) if !v.is_ascii() => "non-ascii",
        Some(_) => "plain",
    }
}

fn same_outcome(a: &Outcome, b: &Outcome) -> bool {
    match (a, b) {
        (Outcome::Value(x), Outcome::Value(y)) => x == y,
        (Outcome::Stderr(_), Outcome::Stderr(_)) => true,
        (Outcome::Stdout { .. }, Outcome::Stdout { .. }) => true,
        _ => false,
    }
}

fn multiset_contains(hay: &[Vec<u8>], needles: &[Vec<u8>]) -> Option<Vec<u8>> {
    let mut hay: Vec<&Vec<u8>> = hay.iter().collect();
    for n in needles {
        match hay.iter().position(|h| *h == n) {
            Some(p) => {
                hay.swap_remove(p);
            }
            None => return Some(n.clone()),
        }
    }
    None
}

impl C02 {
    fn known_flags(ctx: &Ctx) -> (bool, bool) {
        (
            ctx.is_known(SIG_GLUED_NON_UTF8),
            ctx.is_known(SIG_HIDDEN_SHORT),
        )
    }
}

pub fn check_case(case: &Case, ctx: &mut Ctx, known_hidden: bool) -> Verdict {
    let parser = match guarded(|| {
        let p = build_level(&case.level);
        p.check_invariants(false);
        p
    }) {
        Ok(p) => p,
        Err((at, msg)) => {
            return Verdict::fail(
                "generator/invariants",
                format!("check_invariants panicked at {}: {}", at, msg),
            )
        }
    };
    let opts = opts_for(case, known_hidden);
    let mut st_a = SpellStats::default();
    let mut st_b = SpellStats::default();
    let (argv_a, _) = render(&case.lay, &case.plan_a, &opts, &mut st_a);
    let (argv_b, _) = render(&case.lay, &case.plan_b, &opts, &mut st_b);
    let out_a = run(&parser, &argv_a);
    let out_b = run(&parser, &argv_b);
    ctx.eval(2);
    for (o, argv) in [(&out_a, &argv_a), (&out_b, &argv_b)] {
        if let Outcome::Panic { at, msg } = o {
            return Verdict::fail(
                format!("panic@{}", at),
                format!("panic on {:?}: {}", show_argv(argv), msg),
            );
        }
    }
    ctx.class(&format!("outcome:{}", out_a.class()));
    if case.mutated.is_some() {
        ctx.class("arity-mutant");
    }
    let differing = case
        .plan_a
        .plan
        .iter()
        .zip(case.plan_b.plan.iter())
        .filter(|(a, b)| a.1 != b.1)
        .count();
    let hard = case.lay.items.iter().any(|i| match &i.kind {
        LKind::Occ(o) => !matches!(value_class(&o.value), "flag" | "plain"),
        _ => false,
    });
    let mb = st_a.multibyte_names > 0;
    if st_a.clusters + st_b.clusters > 0 {
        ctx.class("cluster");
    }
    if mb {
        ctx.class("multibyte-name");
    }
    if hard {
        ctx.class("hard-value");
    }
    if argv_a != argv_b && (differing >= 2 || st_a.clusters + st_b.clusters > 0 || mb || hard) {
        ctx.nontrivial(fnv_str(&format!(
            "{:?}{:?}{:?}",
            case.level, argv_a, argv_b
        )));
    }

    if !same_outcome(&out_a, &out_b) {
        // find a single occurrence whose respelling flips the outcome
        let mut prev = out_a.clone();
        let mut hybrid = case.plan_a.clone();
        let mut culprit: Option<(Occ, Spelling, Spelling, bool, bool)> = None;
        for k in 0..hybrid.plan.len() {
            let (ua, sa, ja) = case.plan_a.plan[k];
            let (_, sb, jb) = case.plan_b.plan[k];
            if sa == sb && ja == jb {
                continue;
            }
            hybrid.plan[k] = (ua, sb, jb);
            let mut st = SpellStats::default();
            let (argv_h, _) = render(&case.lay, &hybrid, &opts, &mut st);
            let out_h = run(&parser, &argv_h);
            ctx.eval(1);
            if !same_outcome(&prev, &out_h) {
                if let Some(LItem {
                    kind: LKind::Occ(o),
                    ..
                }) = case.lay.items.iter().find(|i| i.uid == ua)
                {
                    culprit = Some((o.clone(), sa, sb, ja, jb));
                }
                break;
            }
            prev = out_h;
        }
        let sig = match &culprit {
            Some((o, sa, sb, ja, jb)) => {
                let vc = value_class(&o.value);
                let hidden = case.hidden.contains(&o.leaf);
                let short = matches!(o.alias, Alias::Short(_));
                let glued = *sa == Spelling::Glued || *sb == Spelling::Glued;
                let any_hidden_short = case.lay.items.iter().any(|i| match &i.kind {
                    LKind::Occ(x) => {
                        case.hidden.contains(&x.leaf) && matches!(x.alias, Alias::Short(_))
                    }
                    _ => false,
                });
                if (hidden && short && (glued || ja != jb || o.value.is_none()))
                    || (any_hidden_short && short && ja != jb)
                {
                    SIG_HIDDEN_SHORT.to_owned()
                } else if vc == "non-utf8" && glued && short {
                    SIG_GLUED_NON_UTF8.to_owned()
                } else {
                    let mut sps = vec![format!("{:?}", sa), format!("{:?}", sb)];
                    sps.sort();
                    format!(
                        "spelling/{}{}/{}~{}{}/{}{}",
                        if short { "short" } else { "long" },
                        if o.alias_is_ascii() { "" } else { "-multibyte" },
                        sps[0],
                        sps[1],
                        if ja != jb { "+cluster" } else { "" },
                        vc,
                        if o.adjacent_only { "/adjacent-arg" } else { "" }
                    )
                }
            }
            None => {
                // a cluster difference involving a hidden flag shows up here as well
                let hidden_short = case.lay.items.iter().any(|i| match &i.kind {
                    LKind::Occ(o) => {
                        case.hidden.contains(&o.leaf) && matches!(o.alias, Alias::Short(_))
                    }
                    _ => false,
                });
                if hidden_short {
                    SIG_HIDDEN_SHORT.to_owned()
                } else {
                    "spelling/unlocalised".to_owned()
                }
            }
        };
        return Verdict::fail(
            sig,
            format!(
                "same sentence, two spellings, different outcomes:\n  A {:?} -> {}\n  B {:?} -> {}\n  culprit {:?}",
                show_argv(&argv_a),
                out_a.short(),
                show_argv(&argv_b),
                out_b.short(),
                culprit
            ),
        );
    }

    // the bytes of a value never decide whether a sentence is accepted: for string, OS-string
    // and path targets a hard value (empty, `=`, spaces, non-ASCII, non-UTF-8, attached leading
    // dash) may be replaced by a plain one without turning a rejection into a success
    if case.mutated.is_none() && !matches!(out_a, Outcome::Value(_)) {
        let leaves = case.level.body.named_leaves(true);
        let stringy = |leaf: usize| -> Option<Ty> {
            leaves.iter().find(|l| l.id == leaf).and_then(|l| match &l.kind {
                NamedKind::Arg { ty, .. } if !ty.is_num() => Some(*ty),
                _ => None,
            })
        };
        let mut hard_items: Vec<(usize, &'static str, String)> = Vec::new();
        for it in &case.lay.items {
            match &it.kind {
                LKind::Occ(o) => {
                    let vc = value_class(&o.value);
                    if !matches!(vc, "flag" | "plain") {
                        if let Some(ty) = stringy(o.leaf) {
                            hard_items.push((it.uid, vc, format!("{:?}", ty)));
                        }
                    }
                }
                LKind::Word(w) => {
                    let vc = value_class(&Some(w.clone()));
                    if matches!(vc, "empty" | "non-utf8" | "has-eq" | "has-space" | "non-ascii") {
                        hard_items.push((it.uid, vc, "word".into()));
                    }
                }
                _ => {}
            }
        }
        let variant = |uids: &[usize]| -> (Vec<Vec<u8>>, Outcome) {
            let mut lay = case.lay.clone();
            for x in &mut lay.items {
                if uids.contains(&x.uid) {
                    let plain = format!("pv{}", x.uid).into_bytes();
                    match &mut x.kind {
                        LKind::Occ(o) => o.value = Some(plain),
                        LKind::Word(w) => *w = plain,
                        _ => {}
                    }
                }
            }
            let mut st = SpellStats::default();
            let (argv, _) = render(&lay, &case.plan_a, &opts, &mut st);
            let out = run(&parser, &argv);
            (argv, out)
        };
        if !hard_items.is_empty() {
            let all: Vec<usize> = hard_items.iter().map(|h| h.0).collect();
            let (argv_p, out_p) = variant(&all);
            ctx.eval(1);
            ctx.class("hard-to-plain-probe");
            if let Outcome::Value(_) = &out_p {
                // localise: a single item whose replacement alone is enough
                let mut culprit = None;
                for h in &hard_items {
                    let (_, o) = variant(&[h.0]);
                    ctx.eval(1);
                    if matches!(o, Outcome::Value(_)) {
                        culprit = Some(h.clone());
                        break;
                    }
                }
                let glued_raw = case.lay.items.iter().any(|i| match &i.kind {
                    LKind::Occ(o) => {
                        o.value.as_ref().map_or(false, |v| std::str::from_utf8(v).is_err())
                            && case
                                .plan_a
                                .plan
                                .iter()
                                .any(|p| p.0 == i.uid && p.1 == Spelling::Glued)
                    }
                    _ => false,
                });
                let sig = if glued_raw {
                    SIG_GLUED_NON_UTF8.to_owned()
                } else {
                    match &culprit {
                        Some((_, vc, ty)) => format!("value-bytes-decide-acceptance/{}/{}", vc, ty),
                        None => "value-bytes-decide-acceptance/several".to_owned(),
                    }
                };
                return Verdict::fail(
                    sig,
                    format!(
                        "{:?} -> {}\nbut with plain values in the same places {:?} -> {}",
                        show_argv(&argv_a),
                        out_a.short(),
                        show_argv(&argv_p),
                        out_p.short()
                    ),
                );
            }
        }
    }

    // byte exact delivery
    if case.mutated.is_none() {
        if let Outcome::Value(v) = &out_a {
            let mut leaves = Vec::new();
            v.leaves(&mut leaves);
            if let Some(missing) = multiset_contains(&leaves, &case.delivered) {
                let glued_raw = case.lay.items.iter().any(|i| match &i.kind {
                    LKind::Occ(o) => {
                        o.value.as_ref().map_or(false, |v| std::str::from_utf8(v).is_err())
                            && case
                                .plan_a
                                .plan
                                .iter()
                                .any(|p| p.0 == i.uid && p.1 == Spelling::Glued)
                    }
                    _ => false,
                });
                return Verdict::fail(
                    if glued_raw {
                        SIG_GLUED_NON_UTF8
                    } else {
                        "value-not-delivered-byte-exact"
                    },
                    format!(
                        "{:?} was accepted as {} but the value {:?} the user wrote is not in the result",
                        show_argv(&argv_a),
                        v,
                        show_bytes(&missing)
                    ),
                );
            }
        }
    }

    // the built-in help and version flags cluster like any other short flag: `-ah` is `-a -h`
    if case.mutated.is_none() {
        let present: Vec<usize> = case
            .lay
            .items
            .iter()
            .filter_map(|i| match &i.kind {
                LKind::Occ(o) => Some(o.leaf),
                _ => None,
            })
            .collect();
        let top_fields: Vec<&Node> = match &case.level.body {
            Node::Seq(xs) => xs.iter().collect(),
            other => vec![other],
        };
        let sw = top_fields.iter().find_map(|f| match f {
            Node::Named(x)
                if x.kind == NamedKind::Switch
                    && !present.contains(&x.id)
                    && x.shorts.first().map_or(false, |c| c.is_ascii()) =>
            {
                x.shorts.first().copied()
            }
            _ => None,
        });
        // only when the line has no `--` and no subcommand (the items are appended at the end)
        let simple = !argv_a.iter().any(|a| a.as_slice() == b"--")
            && case.level.body.commands(true).is_empty();
        if let (Some(c), true) = (sw, simple) {
            for builtin in ['h', 'V'] {
                let mut split = argv_a.clone();
                split.push(format!("-{}", c).into_bytes());
                split.push(format!("-{}", builtin).into_bytes());
                let mut joined = argv_a.clone();
                joined.push(format!("-{}{}", c, builtin).into_bytes());
                let (o1, o2) = (run(&parser, &split), run(&parser, &joined));
                ctx.eval(2);
                ctx.class("builtin-flag-in-cluster");
                let same = match (&o1, &o2) {
                    (Outcome::Stdout { text: a, .. }, Outcome::Stdout { text: b, .. }) => a == b,
                    (a, b) => same_outcome(a, b),
                };
                if !same {
                    return Verdict::fail(
                        format!("spelling/cluster-with-builtin-flag/-{}", builtin),
                        format!(
                            "{:?} -> {}\n{:?} -> {}",
                            show_argv(&split),
                            o1.short(),
                            show_argv(&joined),
                            o2.short()
                        ),
                    );
                }
            }
        }
    }

    // adjacent restricted arguments must not accept a detached value
    if let Outcome::Value(_) = &out_a {
        for it in &case.lay.items {
            if let LKind::Occ(o) = &it.kind {
                if o.adjacent_only && o.value.as_ref().map_or(false, |v| detachable(v)) {
                    let mut lay = case.lay.clone();
                    for x in &mut lay.items {
                        if x.uid == it.uid {
                            if let LKind::Occ(o) = &mut x.kind {
                                o.adjacent_only = false;
                            }
                        }
                    }
                    let mut plan = case.plan_a.clone();
                    for p in &mut plan.plan {
                        if p.0 == it.uid {
                            *p = (it.uid, Spelling::Detached, false);
                        }
                    }
                    let mut st = SpellStats::default();
                    let (argv_c, _) = render(&lay, &plan, &opts, &mut st);
                    let out_c = run(&parser, &argv_c);
                    ctx.eval(1);
                    ctx.class("adjacent-arg-detached-probe");
                    if let Outcome::Value(v) = &out_c {
                        return Verdict::fail(
                            "adjacent-argument-accepted-detached-value",
                            format!(
                                "{:?}: argument restricted with adjacent() took a detached value: {}",
                                show_argv(&argv_c),
                                v
                            ),
                        );
                    }
                    break;
                }
            }
        }
    }
    Verdict::Pass
}


// ---------------------------------------------------------------------------------------------
// second family: a counted flag and an argument restricted with `adjacent()` that share a short
// name (`-v -v -v=3`): `-v=3` and `--level=3` are the same occurrence of the argument wherever
// the bare flags stand
// ---------------------------------------------------------------------------------------------

pub struct SharedCase {
    pub level: Level,
    pub a: Vec<Vec<u8>>,
    pub b: Vec<Vec<u8>>,
    pub k: usize,
}

pub fn decode_shared(bytes: &[u8]) -> SharedCase {
    use crate::mk::*;
    let mut u = Un::new(bytes);
    let c = *u.pick(&['v', 'n', 'ñ']);
    let cs = c.to_string();
    let flag = Node::Count(rf(&cs, &["verbose"]).b());
    let arg = opt(arg_adj(&cs, &["level"], Ty::Str));
    // the argument is declared (and so looked for) first: declared the other way round the bare
    // flag parser takes the name half of `-v=3`, which is how the definition reads
    let mut fields = vec![arg, flag];
    let extra = u.bool();
    if extra {
        fields.insert(u.below(3), sw("q", &["quiet"]));
    }
    let level = lvl(seq(fields));
    let k = u.below(4);
    let mut items: Vec<Vec<u8>> = (0..k).map(|_| format!("-{}", c).into_bytes()).collect();
    if extra && u.bool() {
        items.insert(u.below(items.len() + 1), b"-q".to_vec());
    }
    let at = u.below(items.len() + 1);
    let mut a = items.clone();
    a.insert(at, format!("-{}=3", c).into_bytes());
    let mut b = items;
    b.insert(at, b"--level=3".to_vec());
    SharedCase { level, a, b, k }
}

fn check_shared(bytes: &[u8], ctx: &mut Ctx) -> Verdict {
    let case = decode_shared(bytes);
    let parser = match guarded(|| {
        let p = build_level(&case.level);
        p.check_invariants(false);
        p
    }) {
        Ok(p) => p,
        Err(_) => return Verdict::Skip("definition rejected by check_invariants"),
    };
    let (oa, ob) = (run(&parser, &case.a), run(&parser, &case.b));
    ctx.eval(2);
    ctx.class("family:flag-and-adjacent-argument-share-a-short-name");
    if case.k >= 1 {
        ctx.nontrivial(fnv_str(&format!("{:?}{:?}", case.level, case.a)));
    }
    for o in [&oa, &ob] {
        if let Outcome::Panic { at, msg } = o {
            return Verdict::fail(format!("panic@{}", at), msg.clone());
        }
    }
    if !same_outcome(&oa, &ob) || !matches!(ob, Outcome::Value(_)) {
        return Verdict::fail(
            "spelling/shared-short-name/adjacent-argument",
            format!(
                "{}\n  {:?} -> {}\n  {:?} -> {}",
                show_level(&case.level),
                show_argv(&case.a),
                oa.short(),
                show_argv(&case.b),
                ob.short()
            ),
        );
    }
    Verdict::Pass
}

impl Prop for C02 {
    fn id(&self) -> &'static str {
        "C02"
    }
    fn cases(&self) -> (u64, u64) {
        (400_000, 3_000_000)
    }
    fn rule(&self) -> &'static str {
        "choice bytes -> broad definition (alternatives, groups, adjacent groups, hidden items, \
         decorations, adjacent-restricted arguments, commands; multi-byte names) -> sentence built \
         first with values from a byte-level pool (empty, =, a=b, --, -x, space, non-ASCII, \
         non-UTF-8 for OsString/PathBuf) -> one layout, two independently chosen spelling vectors \
         (detached / = / glued / clusters) respecting only the inherent ambiguities of the \
         notation. Oracle: both renderings give the same outcome class and value; every value \
         written arrives byte-exact in the result; an adjacent()-restricted argument never takes a \
         detached value. On a difference the single responsible occurrence is located by hybrid \
         plans. Non-trivial: the two vectors differ in >=2 occurrences, or a cluster, a multi-byte \
         name or a hard value is present; distinct by hash of (definition, argvA, argvB)."
    }
    fn assumptions(&self) -> Vec<&'static str> {
        vec![
            "inherent ambiguities excluded by construction: -nVALUE with empty VALUE or VALUE starting with `=`; values starting with `-` only with `=`; a flag cluster ending in a glued value that contains `=` (the statement's own rule 'bytes after the first =' makes that spelling ambiguous)",
        ]
    }
    fn check(&self, bytes: &[u8], ctx: &mut Ctx) -> Verdict {
        // one case in thirty-two belongs to the second family
        if bytes.first().map_or(false, |b| b % 32 == 31) {
            return check_shared(&bytes[1..], ctx);
        }
        let (kg, kh) = C02::known_flags(ctx);
        let case = decode(bytes, kg, kh);
        for _ in 0..case.excluded {
            ctx.excluded("known-finding spelling excluded by construction");
        }
        check_case(&case, ctx, kh)
    }
    fn describe(&self, bytes: &[u8]) -> Value {
        if bytes.first().map_or(false, |b| b % 32 == 31) {
            let c = decode_shared(&bytes[1..]);
            return json!({
                "family": "flag and adjacent argument sharing a short name",
                "definition": show_level(&c.level),
                "argv": show_argv(&c.a),
                "argv_other_spelling": show_argv(&c.b),
            });
        }
        let case = decode(bytes, false, false);
        let opts = opts_for(&case, false);
        let mut st = SpellStats::default();
        let (a, _) = render(&case.lay, &case.plan_a, &opts, &mut st);
        let (b, _) = render(&case.lay, &case.plan_b, &opts, &mut st);
        json!({
            "definition": show_level(&case.level),
            "argv_A": show_argv(&a),
            "argv_B": show_argv(&b),
            "values_written": case.delivered.iter().map(|v| show_bytes(v)).collect::<Vec<_>>(),
            "sentence_mutation": case.mutated,
        })
    }
    fn regressions(&self) -> Vec<Regression> {
        vec![
            Regression {
                name: "multibyte-short-eq",
                run: reg_multibyte_short_eq,
            },
            Regression {
                name: "glued-non-utf8",
                run: reg_glued_non_utf8,
            },
            Regression {
                name: "hidden-short-cluster",
                run: reg_hidden_cluster,
            },
        ]
    }
}

fn expect_same(level: &Level, a: &[&[u8]], b: &[&[u8]], sig: &str, ctx: &mut Ctx) -> Verdict {
    let p = build_level(level);
    let aa: Vec<Vec<u8>> = a.iter().map(|x| x.to_vec()).collect();
    let bb: Vec<Vec<u8>> = b.iter().map(|x| x.to_vec()).collect();
    let oa = run(&p, &aa);
    let ob = run(&p, &bb);
    ctx.eval(2);
    if same_outcome(&oa, &ob) {
        Verdict::Pass
    } else {
        Verdict::fail(
            sig,
            format!(
                "{:?} -> {} but {:?} -> {}",
                show_argv(&aa),
                oa.short(),
                show_argv(&bb),
                ob.short()
            ),
        )
    }
}

fn reg_multibyte_short_eq(ctx: &mut Ctx) -> Verdict {
    use crate::mk::*;
    let l = lvl(seq(vec![arg("ñ", &[], Ty::Str)]));
    let v = expect_same(
        &l,
        &["-ñ".as_bytes(), b"val"],
        &["-ñ=val".as_bytes()],
        "spelling/short-multibyte/Detached~Equals/plain",
        ctx,
    );
    if !matches!(v, Verdict::Pass) {
        return v;
    }
    expect_same(
        &l,
        &["-ñ".as_bytes(), b"x=val"],
        &["-ñx=val".as_bytes()],
        "spelling/short-multibyte/Detached~Glued/has-eq",
        ctx,
    )
}

fn reg_glued_non_utf8(ctx: &mut Ctx) -> Verdict {
    use crate::mk::*;
    let l = lvl(seq(vec![arg("n", &[], Ty::Os)]));
    expect_same(
        &l,
        &[b"-n=f\xff"],
        &[b"-nf\xff"],
        SIG_GLUED_NON_UTF8,
        ctx,
    )
}

fn reg_hidden_cluster(ctx: &mut Ctx) -> Verdict {
    use crate::mk::*;
    let l = lvl(seq(vec![hide(sw("a", &[])), sw("b", &[])]));
    expect_same(&l, &[b"-a", b"-b"], &[b"-ab"], SIG_HIDDEN_SHORT, ctx)
}

/// leaves that are hidden, exposed for other properties
pub fn hidden_set(level: &Level) -> HashSet<usize> {
    hidden_leaves(level).into_iter().collect()
}
