//! C06 — absent is not invalid: defaults never mask bad values.

use serde_json::{json, Value};

use crate::build::build_level;
use crate::engine::{Ctx, Prop, Verdict, Violation};
use crate::gen::*;
use crate::outcome::{guarded, run, show_argv, Outcome};
use crate::spec::*;
use crate::un::{fnv_str, Un};
use crate::value::V;

pub struct C06;

#[derive(Clone, Copy, Debug, PartialEq, Eq, Hash)]
pub enum W {
    Optional,
    Many,
    Some,
    Collect,
    Count,
    Last,
    Fallback,
    FallbackWithOk,
    FallbackWithErr,
}

pub const WRAPPERS: &[W] = &[
    W::Optional,
    W::Many,
    W::Some,
    W::Collect,
    W::Count,
    W::Last,
    W::Fallback,
    W::FallbackWithOk,
    W::FallbackWithErr,
];

#[derive(Clone, Copy, Debug, PartialEq, Eq, Hash)]
pub enum LeafKind {
    ArgU32,
    ArgI64,
    PosU32,
    ArgStrParse,
    ArgStrGuard,
    ArgU32Guard,
    /// u32 argument whose value comes from its environment variable
    ArgU32Env,
}

pub const C06_ENV: &str = "BPAF_VERIF_C06_NUM";

pub const LEAVES: &[LeafKind] = &[
    LeafKind::ArgU32,
    LeafKind::ArgI64,
    LeafKind::PosU32,
    LeafKind::ArgStrParse,
    LeafKind::ArgStrGuard,
    LeafKind::ArgU32Guard,
    LeafKind::ArgU32Env,
];

#[derive(Clone, Copy, Debug, PartialEq, Eq, Hash)]
pub enum Ctxt {
    Plain,
    InAlt,
    InCmd,
    InAdjacent,
    /// the wrappers are applied to a choice between the item and another one:
    /// `construct!([item, other]).fallback(..)`
    AltInStack,
    /// inside a subcommand that is an alternative to a catch-all list of words:
    /// `construct!([words.many(), sub])` - the failed command must not be re-read as words
    InCmdBesideWords,
}

pub const CONTEXTS: &[Ctxt] = &[
    Ctxt::Plain,
    Ctxt::InAlt,
    Ctxt::InCmd,
    Ctxt::InAdjacent,
    Ctxt::AltInStack,
    Ctxt::InCmdBesideWords,
];

pub const INVALID: &[&[u8]] = &[b"x1", b"", b"-", b"99999999999999999999", b"1 ", b"7\xff"];

#[derive(Clone, Debug, PartialEq, Eq, Hash)]
pub struct Shape {
    pub leaf: LeafKind,
    /// innermost first; (wrapper, catch)
    pub stack: Vec<(W, bool)>,
    pub ctxt: Ctxt,
    pub n_unrelated: usize,
    pub occurrences: usize,
    pub corrupt_ix: usize,
    pub invalid_ix: usize,
}

pub struct Built {
    pub level: Level,
    /// the clean line
    pub argv: Vec<Vec<u8>>,
    /// indices in argv of the value items of the leaf's occurrences
    pub value_ix: Vec<usize>,
    /// indices of all items that belong to the leaf's occurrences (names and values)
    pub leaf_items: Vec<usize>,
    pub invalid: Vec<u8>,
    pub guard_msg: Option<&'static str>,
}

fn wrap(n: Node, w: W, catch: bool) -> Node {
    match w {
        W::Optional => Node::Optional { n: n.b(), catch },
        W::Many => Node::Many { n: n.b(), catch },
        W::Some => Node::Some {
            n: n.b(),
            catch,
            msg: "some needs a value".into(),
        },
        W::Collect => Node::Collect { n: n.b(), catch },
        W::Count => Node::Count(n.b()),
        W::Last => Node::Last(n.b()),
        W::Fallback => Node::Fallback {
            n: n.b(),
            value: "dflt".into(),
            shown: false,
        },
        W::FallbackWithOk => Node::FallbackWith {
            n: n.b(),
            ok: true,
            value: "dflt-with".into(),
        },
        W::FallbackWithErr => Node::FallbackWith {
            n: n.b(),
            ok: false,
            value: "no default available".into(),
        },
    }
}

const GUARD_MSG: &str = "value rejected by guard";

pub fn build_shape(s: &Shape) -> Built {
    use crate::mk::*;
    let is_pos = s.leaf == LeafKind::PosU32;
    let (leaf, guard_msg): (Node, Option<&'static str>) = match s.leaf {
        LeafKind::ArgU32 => (arg("n", &["num"], Ty::U32), None),
        LeafKind::ArgU32Env => (with_env(arg("n", &["num"], Ty::U32), C06_ENV), None),
        LeafKind::ArgI64 => (arg("n", &["num"], Ty::I64), None),
        LeafKind::PosU32 => (pos("NUM", Ty::U32), None),
        LeafKind::ArgStrParse => (
            Node::Parse {
                n: arg("n", &["num"], Ty::Str).b(),
                f: ParseFn::StrToU32,
            },
            None,
        ),
        LeafKind::ArgStrGuard => (
            Node::Guard {
                n: arg("n", &["num"], Ty::Str).b(),
                pred: Pred::NotEq("bad".into()),
                msg: GUARD_MSG.into(),
            },
            Some(GUARD_MSG),
        ),
        LeafKind::ArgU32Guard => (
            Node::Guard {
                n: arg("n", &["num"], Ty::U32).b(),
                pred: Pred::NumBelow(1500),
                msg: GUARD_MSG.into(),
            },
            Some(GUARD_MSG),
        ),
    };
    let mut node = if s.ctxt == Ctxt::AltInStack {
        alt(vec![leaf, rf("z", &["zeta"])])
    } else {
        leaf
    };
    for (w, c) in &s.stack {
        node = wrap(node, *w, *c);
    }
    let unrelated: Vec<Node> = (0..s.n_unrelated)
        .map(|i| match i % 3 {
            0 => sw("", &[["alpha", "beta", "gamma", "delta"][i % 4]]),
            1 => opt(arg("", &[["out", "file", "name", "mode"][i % 4]], Ty::Str)),
            _ => many(arg("", &[["level", "size", "jobs", "user"][i % 4]], Ty::Str)),
        })
        .collect();
    // line for the unrelated fields
    let mut pre: Vec<Vec<u8>> = Vec::new();
    for (i, _) in unrelated.iter().enumerate() {
        match i % 3 {
            0 => pre.push(format!("--{}", ["alpha", "beta", "gamma", "delta"][i % 4]).into_bytes()),
            1 => {}
            _ => {
                pre.push(format!("--{}", ["level", "size", "jobs", "user"][i % 4]).into_bytes());
                pre.push(b"uv".to_vec());
            }
        }
    }
    // occurrences of the leaf
    let mut occ_items: Vec<Vec<u8>> = Vec::new();
    let mut value_rel: Vec<usize> = Vec::new();
    let from_env = s.leaf == LeafKind::ArgU32Env;
    for k in 0..s.occurrences {
        if from_env {
            // nothing on the line: the value comes from the variable
            break;
        }
        if is_pos {
            value_rel.push(occ_items.len());
            occ_items.push(format!("{}", 100 + k).into_bytes());
        } else {
            occ_items.push(b"--num".to_vec());
            value_rel.push(occ_items.len());
            occ_items.push(format!("{}", 100 + k).into_bytes());
        }
    }
    let invalid: Vec<u8> = match s.leaf {
        LeafKind::ArgStrGuard => b"bad".to_vec(),
        LeafKind::ArgU32Guard => b"2000".to_vec(),
        _ => INVALID[s.invalid_ix % INVALID.len()].to_vec(),
    };
    let (level, argv, offset) = match s.ctxt {
        Ctxt::Plain | Ctxt::AltInStack => {
            let mut f = unrelated;
            f.push(node);
            let mut a = pre;
            let off = a.len();
            a.extend(occ_items.clone());
            (lvl(seq(f)), a, off)
        }
        Ctxt::InAlt => {
            let mut f = unrelated;
            f.push(alt(vec![node, rf("z", &["zeta"])]));
            let mut a = pre;
            let off = a.len();
            a.extend(occ_items.clone());
            (lvl(seq(f)), a, off)
        }
        Ctxt::InCmd => {
            let sub = lvl(seq(vec![sw("s", &["sub-flag"]), node]));
            let mut f = unrelated;
            f.push(alt(vec![cmd("sub", sub)]));
            let mut a = pre;
            a.push(b"sub".to_vec());
            let off = a.len();
            a.extend(occ_items.clone());
            (lvl(seq(f)), a, off)
        }
        Ctxt::InCmdBesideWords => {
            let sub = lvl(seq(vec![sw("s", &["sub-flag"]), node]));
            let mut f = unrelated;
            f.push(alt(vec![many(pos("W", Ty::Str)), cmd("sub", sub)]));
            let mut a = pre;
            a.push(b"sub".to_vec());
            let off = a.len();
            a.extend(occ_items.clone());
            (lvl(seq(f)), a, off)
        }
        Ctxt::InAdjacent => {
            let mut f = unrelated;
            f.push(opt(adj(vec![rf("", &["lead"]), node])));
            let mut a = pre;
            a.push(b"--lead".to_vec());
            let off = a.len();
            a.extend(occ_items.clone());
            (lvl(seq(f)), a, off)
        }
    };
    let value_ix: Vec<usize> = value_rel.iter().map(|r| r + offset).collect();
    let leaf_items: Vec<usize> = (offset..offset + occ_items.len()).collect();
    // `fallback_to_usage` is about lines with no arguments at all: on a line that has other
    // items (offset > 0: something stands in front of the occurrence) it changes nothing, an
    // invalid value is still an error
    let mut level = level;
    if offset > 0 && s.invalid_ix % 3 == 0 {
        level.info.fallback_to_usage = true;
    }
    Built {
        level,
        argv,
        value_ix,
        leaf_items,
        invalid,
        guard_msg,
    }
}

/// what the wrapper stack yields when the item is absent: None = the parser fails
pub fn absent_value(stack: &[(W, bool)]) -> Option<V> {
    let mut cur: Option<V> = None;
    for (w, _) in stack {
        cur = match w {
            W::Optional => Some(match cur {
                None => V::none(),
                Some(v) => V::some(v),
            }),
            W::Many | W::Collect => Some(match cur {
                None => V::List(vec![]),
                Some(v) => V::List(vec![v]),
            }),
            W::Some => cur.map(|v| V::List(vec![v])),
            W::Count => Some(V::Count(usize::from(cur.is_some()))),
            W::Last => cur,
            W::Fallback => Some(cur.unwrap_or(V::Const("dflt".into()))),
            W::FallbackWithOk => Some(cur.unwrap_or(V::Const("dflt-with".into()))),
            W::FallbackWithErr => cur,
        };
    }
    cur
}

fn conversion_errors(leaf: LeafKind, invalid: &[u8]) -> Vec<String> {
    let mut v = Vec::new();
    match std::str::from_utf8(invalid) {
        Err(_) => v.push("utf8".to_owned()),
        Ok(s) => match leaf {
            LeafKind::ArgI64 => {
                if let Err(e) = s.parse::<i64>() {
                    v.push(e.to_string());
                }
            }
            _ => {
                if let Err(e) = s.parse::<u32>() {
                    v.push(e.to_string());
                }
            }
        },
    }
    v
}

fn set_c06_env(v: Option<&[u8]>) {
    use std::os::unix::ffi::OsStringExt;
    match v {
        Some(v) => std::env::set_var(C06_ENV, std::ffi::OsString::from_vec(v.to_vec())),
        None => std::env::remove_var(C06_ENV),
    }
}

pub fn check_shape(s: &Shape, ctx: &mut Ctx) -> Verdict {
    let r = check_shape_inner(s, ctx);
    set_c06_env(None);
    r
}

fn check_shape_inner(s: &Shape, ctx: &mut Ctx) -> Verdict {
    let b = build_shape(s);
    let from_env = s.leaf == LeafKind::ArgU32Env;
    // the worker is single threaded and owns its environment
    set_c06_env(if from_env { Some(b"123") } else { None });
    let parser = match guarded(|| {
        let p = build_level(&b.level);
        p.check_invariants(false);
        p
    }) {
        Ok(p) => p,
        Err(_) => return Verdict::Skip("definition rejected by check_invariants"),
    };
    let clean = run(&parser, &b.argv);
    ctx.eval(1);
    if let Outcome::Panic { at, msg } = &clean {
        return Verdict::fail(format!("panic@{}", at), msg.clone());
    }
    let any_catch = s.stack.iter().any(|(_, c)| *c);
    let nested = s.stack.len() >= 2 || s.ctxt != Ctxt::Plain;
    if nested {
        ctx.nontrivial(fnv_str(&format!(
            "{:?}{:?}{:?}{}",
            s.leaf,
            s.stack,
            s.ctxt,
            s.invalid_ix % INVALID.len()
        )));
    }
    ctx.class(&format!("context:{:?}", s.ctxt));
    ctx.class(&format!("depth:{}", s.stack.len()));

    // (i) present but invalid
    if matches!(clean, Outcome::Value(_)) && (!b.value_ix.is_empty() || from_env) {
        ctx.class("accepted-sentence");
        let mut a = b.argv.clone();
        if from_env {
            set_c06_env(Some(&b.invalid));
            ctx.class("invalid-value-in-environment");
        } else {
            let which = b.value_ix[s.corrupt_ix % b.value_ix.len()];
            a[which] = b.invalid.clone();
        }
        // the invalid text must really be invalid for this leaf
        let really_invalid = match s.leaf {
            LeafKind::ArgStrGuard | LeafKind::ArgU32Guard => true,
            l => !conversion_errors(l, &b.invalid).is_empty(),
        };
        if really_invalid {
            let out = run(&parser, &a);
            ctx.eval(1);
            match &out {
                Outcome::Panic { at, msg } => {
                    return Verdict::fail(format!("panic@{}", at), msg.clone())
                }
                Outcome::Value(v) if !any_catch => {
                    return Verdict::fail(
                        // outermost wrapper and placement (the whole stack is in the detail)
                        format!(
                            "invalid-value-masked/{:?}/{:?}",
                            s.stack.last().map(|x| x.0),
                            s.ctxt
                        ),
                        format!(
                            "{} on {:?}: the value {:?} is present but invalid, yet the run succeeded with {}",
                            show_level(&b.level),
                            show_argv(&a),
                            String::from_utf8_lossy(&b.invalid),
                            v
                        ),
                    )
                }
                Outcome::Value(v) => {
                    // with catch: the invalid token must at least not be delivered
                    let mut leaves = Vec::new();
                    v.leaves(&mut leaves);
                    if leaves.contains(&b.invalid) && !b.invalid.is_empty() && s.leaf != LeafKind::ArgU32Guard {
                        return Verdict::fail(
                            "invalid-value-delivered-under-catch",
                            format!("{:?} -> {}", show_argv(&a), v),
                        );
                    }
                    ctx.class("catch-swallowed");
                }
                Outcome::Stderr(t) => {
                    if !any_catch && !matches!(s.ctxt, Ctxt::InAlt | Ctxt::AltInStack | Ctxt::InCmdBesideWords) {
                        let wanted: Vec<String> = match b.guard_msg {
                            Some(g) => vec![g.to_owned()],
                            None => conversion_errors(s.leaf, &b.invalid),
                        };
                        if !wanted.iter().any(|w| t.contains(w.as_str())) {
                            return Verdict::fail(
                                format!("error-text-lost/{:?}", s.ctxt),
                                format!(
                                    "{} on {:?}: stderr {:?} carries none of {:?}",
                                    show_level(&b.level),
                                    show_argv(&a),
                                    t,
                                    wanted
                                ),
                            );
                        }
                    }
                }
                other => {
                    return Verdict::fail(
                        "invalid-value-unexpected-class",
                        format!("{:?} -> {}", show_argv(&a), other.short()),
                    )
                }
            }
        }
    }

    // (ii) absent: remove every item of the leaf (and unset its variable)
    set_c06_env(None);
    let mut a: Vec<Vec<u8>> = Vec::new();
    for (i, x) in b.argv.iter().enumerate() {
        if !b.leaf_items.contains(&i) {
            a.push(x.clone());
        }
    }
    let out = run(&parser, &a);
    ctx.eval(1);
    let expect = absent_value(&s.stack);
    match (&expect, &out) {
        (_, Outcome::Panic { at, msg }) => Verdict::fail(format!("panic@{}", at), msg.clone()),
        (Some(dv), Outcome::Value(v)) => {
            // single wrapper: the documented default value must sit in the item's slot
            if s.stack.len() == 1 && s.ctxt == Ctxt::Plain {
                if let V::Tup(xs) = v {
                    if xs.last() != Some(dv) {
                        return Verdict::fail(
                            format!("wrong-default/{:?}", s.stack[0].0),
                            format!(
                                "{} on {:?}: expected {} in the last slot, got {}",
                                show_level(&b.level),
                                show_argv(&a),
                                dv,
                                v
                            ),
                        );
                    }
                }
            }
            Verdict::Pass
        }
        (Some(_), other) => Verdict::fail(
            format!(
                "absent-defaulted-item-fails/{:?}/{:?}",
                s.stack.last().map(|x| x.0),
                s.ctxt
            ),
            format!(
                "{} on {:?}: the item is absent and has a default, but the run gave {}",
                show_level(&b.level),
                show_argv(&a),
                other.short()
            ),
        ),
        (None, Outcome::Stderr(t)) => {
            let conv = ["invalid digit", "cannot parse integer", "too large", GUARD_MSG, "utf8"];
            if conv.iter().any(|c| t.contains(c)) {
                return Verdict::fail(
                    "absent-item-reported-as-invalid",
                    format!("{:?} -> {:?}", show_argv(&a), t),
                );
            }
            Verdict::Pass
        }
        (None, Outcome::Value(v)) => {
            // InAlt: the other branch cannot succeed either (its flag is absent)
            Verdict::fail(
                format!(
                    "absent-required-item-accepted/{:?}/{:?}",
                    s.stack.iter().map(|x| x.0).collect::<Vec<_>>(),
                    s.ctxt
                ),
                format!(
                    "{} on {:?}: nothing can default here but the run succeeded with {}",
                    show_level(&b.level),
                    show_argv(&a),
                    v
                ),
            )
        }
        (None, other) => Verdict::fail(
            "absent-unexpected-class",
            format!("{:?} -> {}", show_argv(&a), other.short()),
        ),
    }
}

pub fn decode(bytes: &[u8]) -> Shape {
    let mut u = Un::new(bytes);
    let leaf = *u.pick(LEAVES);
    let depth = 1 + u.weighted(&[3, 4, 3]);
    let mut stack = Vec::new();
    for _ in 0..depth {
        let w = *u.pick(WRAPPERS);
        let catch = matches!(w, W::Optional | W::Many | W::Some | W::Collect) && u.chance(40);
        stack.push((w, catch));
    }
    let ctxt = *u.pick(CONTEXTS);
    let repeat = stack
        .iter()
        .any(|(w, _)| matches!(w, W::Many | W::Some | W::Collect | W::Count | W::Last));
    Shape {
        leaf,
        stack,
        ctxt,
        n_unrelated: u.below(5),
        occurrences: if repeat { 1 + u.below(2) } else { 1 },
        corrupt_ix: u.below(4),
        invalid_ix: u.below(INVALID.len()),
    }
}

impl Prop for C06 {
    fn id(&self) -> &'static str {
        "C06"
    }
    fn max_len(&self) -> usize {
        32
    }
    fn cases(&self) -> (u64, u64) {
        (250_000, 600_000)
    }
    fn rule(&self) -> &'static str {
        "a typed leaf (u32/i64 argument, u32 positional, string argument with parse or guard, u32 \
         argument with guard) under a stack of 1-3 wrappers drawn from optional/many/some/collect/ \
         count/last/fallback/fallback_with(ok|err), with and without catch, placed plain, inside a \
         choice, inside a subcommand or inside an adjacent group, next to 0-4 unrelated fields. \
         Lines: the accepted sentence, then (i) one occurrence's value replaced by invalid text \
         (x1, empty, -, overflow, trailing space, non-UTF-8, guard-rejected) and (ii) all of the \
         item's occurrences removed. Oracle: (i) without catch the run fails on stderr and, outside \
         a choice, the text carries the FromStr error (computed by calling the same FromStr) or \
         the guard message; with catch only 'no panic, invalid token not delivered'; (ii) the run \
         succeeds iff the wrapper stack can produce a value from nothing (an abstract evaluation \
         of the documented wrapper semantics), single wrappers must produce the documented default, \
         and a failing absent item is never reported with a conversion/guard text. The thorough \
         tier ENUMERATES all stacks of depth <=3 x contexts x leaves x invalid kinds; quick \
         enumerates depth <=2 and samples the rest. Non-trivial: stack depth >=2 or a nested \
         context; distinct by (leaf, stack, context, invalid kind)."
    }
    fn check(&self, bytes: &[u8], ctx: &mut Ctx) -> Verdict {
        let s = decode(bytes);
        check_shape(&s, ctx)
    }
    fn describe(&self, bytes: &[u8]) -> Value {
        let s = decode(bytes);
        let b = build_shape(&s);
        json!({
            "definition": show_level(&b.level),
            "clean_argv": show_argv(&b.argv),
            "invalid_text": String::from_utf8_lossy(&b.invalid),
            "stack_innermost_first": format!("{:?}", s.stack),
            "context": format!("{:?}", s.ctxt),
            "absent_yields": absent_value(&s.stack).map(|v| v.to_string()),
        })
    }
    fn enumerate(&self, ctx: &mut Ctx, thorough: bool, shard: usize, nshards: usize) -> Vec<Violation> {
        let max_depth = if thorough { 3 } else { 2 };
        let mut stacks: Vec<Vec<(W, bool)>> = Vec::new();
        fn go(cur: &mut Vec<(W, bool)>, max: usize, out: &mut Vec<Vec<(W, bool)>>) {
            if !cur.is_empty() {
                out.push(cur.clone());
            }
            if cur.len() == max {
                return;
            }
            for w in WRAPPERS {
                cur.push((*w, false));
                go(cur, max, out);
                cur.pop();
            }
        }
        go(&mut Vec::new(), max_depth, &mut stacks);
        let mut out = Vec::new();
        let mut seen_sigs: Vec<String> = Vec::new();
        let mut n = 0usize;
        for stack in &stacks {
            for ctxt in CONTEXTS {
                for leaf in LEAVES {
                    for inv in 0..INVALID.len() {
                        n += 1;
                        if n % nshards != shard {
                            continue;
                        }
                        let repeat = stack.iter().any(|(w, _)| {
                            matches!(w, W::Many | W::Some | W::Collect | W::Count | W::Last)
                        });
                        let s = Shape {
                            leaf: *leaf,
                            stack: stack.clone(),
                            ctxt: *ctxt,
                            n_unrelated: inv % 3,
                            occurrences: if repeat { 2 } else { 1 },
                            corrupt_ix: inv,
                            invalid_ix: inv,
                        };
                        ctx.cases += 1;
                        if let Verdict::Fail { sig, detail } = check_shape(&s, ctx) {
                            if ctx.is_known(&sig) {
                                *ctx.known_hits.entry(sig).or_default() += 1;
                            } else if !seen_sigs.contains(&sig) {
                                seen_sigs.push(sig.clone());
                                out.push(Violation {
                                    sig,
                                    detail,
                                    bytes: Vec::new(),
                                    case: json!({"shape": format!("{:?}", s)}),
                                });
                            }
                        }
                    }
                }
            }
        }
        ctx.class(if thorough {
            "enumerated-all-stacks-depth<=3"
        } else {
            "enumerated-all-stacks-depth<=2"
        });
        out
    }
}
