//! C12 — generated help documents exactly what the parser accepts.

use serde_json::{json, Value};

use crate::broad::*;
use crate::build::build_level;
use crate::engine::{Ctx, Prop, Verdict};
use crate::gen::*;
use crate::outcome::{guarded, run_cfg, show_argv, Outcome, RunCfg};
use crate::props::c10::levels_with_paths;
use crate::spec::*;
use crate::un::{fnv_str, Un};

pub struct C12;

pub struct Case {
    pub level: Level,
}

fn cfg() -> BroadCfg {
    BroadCfg {
        max_fields: 8,
        help: HelpGen::Markers,
        version: true,
        custom_help: true,
        dup_names: true,
        odd_groups: true,
        ..BroadCfg::default()
    }
}

pub fn decode(bytes: &[u8]) -> Case {
    let mut u = Un::new(bytes);
    let mut names = Names::new();
    names.mid_names = true;
    let mut level = gen_broad_level(&mut u, &mut names, &cfg(), 1);
    // positionals of every strictness: the builder methods must keep help and metavariable
    fn strictness(n: &mut Node, u: &mut Un) {
        match n {
            Node::Pos(p) => {
                p.strict = *u.pick(&[
                    Strictness::Unrestricted,
                    Strictness::Unrestricted,
                    Strictness::Strict,
                    Strictness::NonStrict,
                ]);
            }
            Node::Cmd(c) => strictness(&mut c.level.body, u),
            Node::Adjacent(_) => {}
            other => {
                for c in other.children_mut() {
                    strictness(c, u);
                }
            }
        }
    }
    strictness(&mut level.body, &mut u);
    Case { level }
}

#[derive(Clone, Debug)]
pub enum Thing<'a> {
    Named(&'a NamedSpec),
    Pos(&'a PosSpec),
    Cmd(&'a CmdSpec),
}

#[derive(Clone, Debug)]
pub struct Vis<'a> {
    pub thing: Thing<'a>,
    pub hidden: bool,
    pub in_adjacent: bool,
    pub adjacent_lead: bool,
    /// member of a nested group: needs its siblings to be accepted
    pub grouped: bool,
}

/// everything a level declares (not descending into commands) with its visibility
pub fn things(level: &Level) -> Vec<Vis<'_>> {
    fn go<'a>(n: &'a Node, hidden: bool, adj: bool, lead: bool, depth: usize, out: &mut Vec<Vis<'a>>) {
        match n {
            Node::Named(x) => out.push(Vis {
                thing: Thing::Named(x),
                hidden,
                in_adjacent: adj,
                adjacent_lead: lead,
                grouped: depth > 1,
            }),
            Node::Pos(p) => out.push(Vis {
                thing: Thing::Pos(p),
                hidden,
                in_adjacent: adj,
                adjacent_lead: lead,
                grouped: depth > 1,
            }),
            Node::Cmd(c) => out.push(Vis {
                thing: Thing::Cmd(c),
                hidden,
                in_adjacent: adj,
                adjacent_lead: lead,
                grouped: depth > 1,
            }),
            Node::Hide(n) => go(n, true, adj, lead, depth, out),
            Node::Adjacent(xs) => {
                for (i, x) in xs.iter().enumerate() {
                    go(x, hidden, true, i == 0, depth + 1, out);
                }
            }
            Node::Seq(xs) => {
                for x in xs {
                    go(x, hidden, adj, false, depth + 1, out);
                }
            }
            other => {
                for c in other.children() {
                    go(c, hidden, adj, lead && !matches!(other, Node::Alt(_)), depth, out);
                }
            }
        }
    }
    let mut out = Vec::new();
    go(&level.body, false, false, false, 0, &mut out);
    out
}

fn strip_usage_decor(n: &Node) -> Node {
    let mut out = n.clone();
    fn go(n: &mut Node) {
        loop {
            match n {
                Node::HideUsage(inner) | Node::CustomUsage(inner, _) => {
                    let i = (**inner).clone();
                    *n = i;
                }
                _ => break,
            }
        }
        match n {
            Node::Cmd(c) => go(&mut c.level.body),
            Node::Seq(xs) | Node::Alt(xs) | Node::Adjacent(xs) => {
                for x in xs {
                    go(x);
                }
            }
            Node::Optional { n, .. }
            | Node::Many { n, .. }
            | Node::Some { n, .. }
            | Node::Collect { n, .. }
            | Node::Count(n)
            | Node::Last(n)
            | Node::Fallback { n, .. }
            | Node::FallbackWith { n, .. }
            | Node::Guard { n, .. }
            | Node::Parse { n, .. }
            | Node::Map(n)
            | Node::Hide(n)
            | Node::GroupHelp(n, _)
            | Node::WithGroupHelp(n, _)
            | Node::Complete { n, .. }
            | Node::CompleteShell(n, _)
            | Node::Boxed(n) => go(n),
            Node::HideUsage(_) | Node::CustomUsage(..) => unreachable!(),
            Node::Named(_) | Node::Pos(_) | Node::Pure(_) | Node::Fail(_) | Node::Any(_) => {}
        }
    }
    go(&mut out);
    out
}

fn has_usage_decor(l: &Level) -> bool {
    l.body
        .count_kind(true, &|n| matches!(n, Node::HideUsage(_) | Node::CustomUsage(..)))
        > 0
}

/// the help text without its usage block (from the line starting with `Usage` to the next
/// blank line)
fn without_usage(text: &str) -> String {
    let mut out = String::new();
    let mut skipping = false;
    for line in text.lines() {
        if line.starts_with("Usage") {
            skipping = true;
        }
        if skipping {
            if line.trim().is_empty() {
                skipping = false;
            }
            continue;
        }
        out.push_str(line);
        out.push('\n');
    }
    out
}

/// `hay` contains `marker` not followed by another digit
fn has_marker(hay: &str, marker: &str) -> bool {
    let mut from = 0;
    while let Some(p) = hay[from..].find(marker) {
        let end = from + p + marker.len();
        if !hay[end..].chars().next().map_or(false, |c| c.is_ascii_digit()) {
            return true;
        }
        from = end;
    }
    false
}

fn find_marker(hay: &str, marker: &str) -> Option<usize> {
    let mut from = 0;
    while let Some(p) = hay[from..].find(marker) {
        let end = from + p + marker.len();
        if !hay[end..].chars().next().map_or(false, |c| c.is_ascii_digit()) {
            return Some(from + p);
        }
        from = end;
    }
    None
}

/// a definition term followed by the end of the term (blank or end of line), so that `--color`
/// is not found inside `--color=WHEN`
fn find_term(body: &str, term: &str) -> Option<usize> {
    let mut from = 0;
    while let Some(p) = body[from..].find(term) {
        let at = from + p;
        let end = at + term.len();
        let next = body[end..].chars().next();
        let before_ok = at == 0 || body[..at].ends_with(' ');
        if before_ok && next.map_or(true, |c| c == ' ' || c == '\n') {
            return Some(at);
        }
        from = end;
    }
    None
}

fn first_marker(d: &Option<DocSpec>) -> Option<String> {
    let t = d.as_ref()?.flat();
    let first = t.split("\n\n").next()?.to_owned();
    first.split_whitespace().last().map(str::to_owned)
}

fn later_marker(d: &Option<DocSpec>) -> Option<String> {
    let t = d.as_ref()?.flat();
    let mut it = t.split("\n\n");
    it.next()?;
    it.next()?.split_whitespace().last().map(str::to_owned)
}

fn metavar_fmt(mv: &str) -> String {
    if mv
        .chars()
        .all(|c| c.is_uppercase() || c.is_ascii_digit() || c == '-' || c == '_')
    {
        mv.to_owned()
    } else {
        format!("<{}>", mv)
    }
}

fn named_term(x: &NamedSpec) -> String {
    let base = match (x.shorts.first(), x.longs.first()) {
        (Some(s), Some(l)) => format!("-{}, --{}", s, l),
        (Some(s), None) => format!("-{}", s),
        (None, Some(l)) => format!("    --{}", l),
        (None, None) => String::new(),
    };
    match &x.kind {
        NamedKind::Arg { metavar, .. } => format!("{}={}", base, metavar_fmt(metavar)),
        _ => base,
    }
}

/// dash tokens of a text: (`--name` tokens, `-c` tokens)
fn dash_tokens(text: &str) -> (Vec<String>, Vec<char>) {
    let mut longs = Vec::new();
    let mut shorts = Vec::new();
    let chars: Vec<char> = text.chars().collect();
    let is_delim = |c: char| c.is_whitespace() || matches!(c, ',' | '=' | '[' | ']' | '(' | ')' | '|' | '.' | '`');
    let mut i = 0;
    while i < chars.len() {
        if chars[i] == '-' && (i == 0 || is_delim(chars[i - 1])) {
            if i + 1 < chars.len() && chars[i + 1] == '-' {
                let mut j = i + 2;
                let mut name = String::new();
                while j < chars.len() && !is_delim(chars[j]) {
                    name.push(chars[j]);
                    j += 1;
                }
                if !name.is_empty() {
                    longs.push(name);
                }
                i = j;
                continue;
            } else if i + 1 < chars.len() && !is_delim(chars[i + 1]) {
                let c = chars[i + 1];
                if i + 2 >= chars.len() || is_delim(chars[i + 2]) {
                    shorts.push(c);
                }
                i += 2;
                continue;
            }
        }
        i += 1;
    }
    (longs, shorts)
}

// ---------------------------------------------------------------------------------------------
// second family: `any(..)` items - free-form items a user can pass - with help texts, alone and
// as members of an adjacent block (`--exec CMD ;`), at the top level or inside a subcommand.
// Every visible item with a help text is listed with it; hidden ones are not.
// ---------------------------------------------------------------------------------------------

pub struct AnyCase {
    pub root: Level,
    pub path: Vec<String>,
    /// (help marker, hidden)
    pub markers: Vec<(String, bool)>,
}

pub fn decode_any(bytes: &[u8]) -> AnyCase {
    let mut u = Un::new(bytes);
    let mut names = Names::new();
    let mut markers: Vec<(String, bool)> = Vec::new();
    let mut k = 0;
    let mut mark = |hidden: bool, markers: &mut Vec<(String, bool)>| -> DocSpec {
        k += 1;
        let m = format!("Hlp{}", k);
        markers.push((m.clone(), hidden));
        DocSpec::plain(format!("about {} item", m))
    };
    let mut fields: Vec<Node> = Vec::new();
    for _ in 0..u.below(3) {
        let mut n = gen_named_leaf(&mut u, &mut names, NamedKind::Switch);
        n.help = Some(mark(false, &mut markers));
        fields.push(Node::Named(n));
    }
    // the block: a named lead, then any / positional members
    if u.chance(200) {
        let mut lead = gen_named_leaf(&mut u, &mut names, NamedKind::ReqFlag);
        let block_hidden = u.chance(30);
        if u.chance(200) {
            lead.help = Some(mark(block_hidden, &mut markers));
        }
        let mut m = vec![Node::Named(lead)];
        for i in 0..1 + u.below(2) {
            if u.chance(170) {
                let help = if u.chance(220) { Some(mark(block_hidden, &mut markers)) } else { None };
                m.push(Node::Any(AnySpec {
                    metavar: format!("ANY{}", i),
                    prefixes: vec![format!("w{}", i)],
                    anywhere: false,
                    help,
                }));
            } else {
                let help = if u.chance(200) { Some(mark(block_hidden, &mut markers)) } else { None };
                m.push(Node::Pos(PosSpec {
                    id: names.id(),
                    metavar: format!("POS{}", i),
                    ty: Ty::Str,
                    help,
                    strict: Strictness::Unrestricted,
                }));
            }
        }
        let g = Node::Adjacent(m);
        let g = match u.below(3) {
            0 => g,
            1 => Node::Optional { n: g.b(), catch: false },
            _ => Node::Many { n: g.b(), catch: false },
        };
        fields.push(if block_hidden { Node::Hide(g.b()) } else { g });
    }
    // a free-standing any item, with or without `anywhere`
    if u.chance(160) {
        let hidden = u.chance(40);
        let a = Node::Any(AnySpec {
            metavar: "FREE".into(),
            prefixes: vec!["+".into()],
            anywhere: u.bool(),
            help: Some(mark(hidden, &mut markers)),
        });
        let a = Node::Optional { n: a.b(), catch: false };
        fields.push(if hidden { Node::Hide(a.b()) } else { a });
    }
    if fields.is_empty() {
        let mut n = gen_named_leaf(&mut u, &mut names, NamedKind::Switch);
        n.help = Some(mark(false, &mut markers));
        fields.push(Node::Named(n));
    }
    let inner = Level::simple(Node::Seq(fields));
    if u.chance(90) {
        let name = names.cmd(&mut u);
        let root = Level::simple(Node::Seq(vec![Node::Cmd(Box::new(CmdSpec {
            name: name.clone(),
            shorts: Vec::new(),
            longs: Vec::new(),
            help: None,
            adjacent: false,
            level: inner,
        }))]));
        AnyCase { root, path: vec![name], markers }
    } else {
        AnyCase { root: inner, path: Vec::new(), markers }
    }
}

pub fn check_any(bytes: &[u8], ctx: &mut Ctx) -> Verdict {
    let case = decode_any(bytes);
    let parser = match guarded(|| {
        let p = build_level(&case.root);
        p.check_invariants(false);
        p
    }) {
        Ok(p) => p,
        Err((at, msg)) => {
            return Verdict::fail(
                "generator/invariants",
                format!("{}: check_invariants panicked at {}: {}", show_level(&case.root), at, msg),
            )
        }
    };
    let mut argv: Vec<Vec<u8>> = case.path.iter().map(|p| p.as_bytes().to_vec()).collect();
    argv.push(b"--help".to_vec());
    let out = run_cfg(&parser, &argv, &RunCfg::default());
    ctx.eval(1);
    ctx.class("family:any-items");
    if case.markers.len() >= 3 {
        ctx.nontrivial(fnv_str(&format!("{:?}", case.root)));
    }
    let text = match out {
        Outcome::Stdout { text, .. } => text,
        Outcome::Panic { at, msg } => return Verdict::fail(format!("panic@{}", at), msg),
        other => {
            return Verdict::fail(
                "help-request-not-stdout",
                format!("{} on {:?} -> {}", show_level(&case.root), show_argv(&argv), other.short()),
            )
        }
    };
    let body = without_usage(&text);
    for (m, hidden) in &case.markers {
        let n = count_marker(&body, m);
        if *hidden && n > 0 {
            return Verdict::fail(
                "any-family/hidden-item-listed",
                format!("{}: {} shows up in\n{}", show_level(&case.root), m, text),
            );
        }
        if !*hidden && n != 1 {
            return Verdict::fail(
                if n == 0 { "any-family/item-with-help-not-listed" } else { "any-family/item-listed-twice" },
                format!("{}: help text {} appears {} times in\n{}", show_level(&case.root), m, n, text),
            );
        }
    }
    Verdict::Pass
}

/// occurrences of `marker` not followed by another digit
fn count_marker(hay: &str, marker: &str) -> usize {
    let mut from = 0;
    let mut n = 0;
    while let Some(p) = hay[from..].find(marker) {
        let end = from + p + marker.len();
        if !hay[end..].chars().next().map_or(false, |c| c.is_ascii_digit()) {
            n += 1;
        }
        from = end;
    }
    n
}

pub fn check_level(root: &Level, path: &[String], level: &Level, ctx: &mut Ctx) -> Verdict {
    let parser = build_level(root);
    let mut argv: Vec<Vec<u8>> = path.iter().map(|p| p.as_bytes().to_vec()).collect();
    let help_item = format!("--{}", level.info.help_longs()[0]).into_bytes();
    argv.push(help_item);
    let out = run_cfg(&parser, &argv, &RunCfg::default());
    ctx.eval(1);
    let text = match out {
        Outcome::Stdout { text, .. } => text,
        Outcome::Panic { at, msg } => return Verdict::fail(format!("panic@{}", at), msg),
        other => {
            return Verdict::fail(
                "help-request-not-stdout",
                format!("{:?} -> {}", show_argv(&argv), other.short()),
            )
        }
    };
    let vis = things(level);
    let body = without_usage(&text);
    let fail = |sig: &str, what: String| -> Verdict {
        Verdict::fail(
            sig.to_owned(),
            format!(
                "level {:?} of {}\n{}\nhelp text:\n{}",
                path,
                show_level(root),
                what,
                text
            ),
        )
    };

    let mut allowed_longs: Vec<String> = level.info.help_longs()[..1].to_vec();
    let mut allowed_shorts: Vec<char> = level.info.help_shorts().into_iter().take(1).collect();
    if level.info.version.is_some() {
        allowed_longs.push(level.info.version_longs()[0].clone());
        allowed_shorts.extend(level.info.version_shorts().into_iter().take(1));
    }
    let mut n_visible = 0;
    let mut n_hidden = 0;
    let mut n_alias = 0;
    for v in &vis {
        match &v.thing {
            Thing::Named(x) => {
                if v.hidden {
                    n_hidden += 1;
                    // (b) no marker of a hidden item
                    if let Some(m) = first_marker(&x.help) {
                        if has_marker(&text, &m) {
                            return fail("hidden-item-in-help", format!("marker {} of hidden {} is shown", m, x.first_name()));
                        }
                    }
                    continue;
                }
                n_visible += 1;
                n_alias += x.shorts.len().saturating_sub(1) + x.longs.len().saturating_sub(1);
                if let Some(l) = x.longs.first() {
                    allowed_longs.push(l.clone());
                }
                if let Some(s) = x.shorts.first() {
                    allowed_shorts.push(*s);
                }
                if v.in_adjacent {
                    // at least in the group's usage line
                    let name = match (x.shorts.first(), x.longs.first()) {
                        (Some(s), _) => format!("-{}", s),
                        (None, Some(l)) => format!("--{}", l),
                        _ => continue,
                    };
                    let alt = x.longs.first().map(|l| format!("--{}", l)).unwrap_or_default();
                    if !text.contains(&name) && (alt.is_empty() || !text.contains(&alt)) {
                        return fail("adjacent-member-not-documented", format!("{} appears nowhere", x.first_name()));
                    }
                    continue;
                }
                // (a) term and first paragraph marker
                let term = named_term(x);
                let pos = match find_term(&body, term.trim_start()) {
                    Some(p) => p,
                    None => {
                        return fail("visible-item-missing-from-help", format!("no term {:?} in the item lists", term))
                    }
                };
                if let Some(m) = first_marker(&x.help) {
                    match find_marker(&body[pos..], &m) {
                        Some(_) => {}
                        None => {
                            return fail("item-help-text-missing", format!("marker {} of {} does not follow its term", m, x.first_name()))
                        }
                    }
                }
                if let Some(m) = later_marker(&x.help) {
                    if has_marker(&text, &m) {
                        return fail("short-help-shows-later-paragraph", format!("marker {}", m));
                    }
                }
            }
            Thing::Pos(p) => {
                if v.hidden || v.in_adjacent {
                    continue;
                }
                if let Some(m) = first_marker(&p.help) {
                    let term = metavar_fmt(&p.metavar);
                    match body.find(&term).and_then(|at| find_marker(&body[at..], &m)) {
                        Some(_) => {}
                        None => {
                            return fail("positional-with-help-missing", format!("{} / {}", term, m))
                        }
                    }
                }
            }
            Thing::Cmd(c) => {
                if v.hidden {
                    if let Some(m) = first_marker(&c.help) {
                        if has_marker(&text, &m) {
                            return fail("hidden-item-in-help", format!("hidden command {} is shown", c.name));
                        }
                    }
                    continue;
                }
                n_visible += 1;
                let term = match c.shorts.first() {
                    Some(s) => format!("{}, {}", c.name, s),
                    None => c.name.clone(),
                };
                let pos = match body.find(&format!("    {}", term)) {
                    Some(p) => p,
                    None => return fail("visible-item-missing-from-help", format!("command {:?}", term)),
                };
                let descr = first_marker(&c.help).or_else(|| first_marker(&c.level.info.descr));
                if let Some(m) = descr {
                    if find_marker(&body[pos..], &m).is_none() {
                        return fail("item-help-text-missing", format!("command {} description {}", c.name, m));
                    }
                }
                // the whole first line of the description, fragment by fragment
                let src = if c.help.is_some() { &c.help } else { &c.level.info.descr };
                if let Some(d) = src {
                    let flat = d.flat();
                    let first_line: String = flat
                        .lines()
                        .next()
                        .unwrap_or("")
                        .chars()
                        .filter(|ch| !ch.is_whitespace())
                        .collect();
                    let rest: String = body[pos..].chars().filter(|ch| !ch.is_whitespace()).collect();
                    let term_sq: String = term.chars().filter(|ch| !ch.is_whitespace()).collect();
                    if !first_line.is_empty() && !rest.starts_with(&format!("{}{}", term_sq, first_line)) {
                        return fail(
                            "command-description-garbled",
                            format!("command {}: the list does not show {:?} right after the name", c.name, flat.lines().next().unwrap_or("")),
                        );
                    }
                }
                // secondary names of the command are not shown as terms
                for l in &c.longs {
                    if body.contains(&format!("    {}", l)) {
                        return fail("alias-shown-in-help", format!("command alias {}", l));
                    }
                }
            }
        }
    }
    // help/version flags
    let hterm = match (level.info.help_shorts().first(), level.info.help_longs().first()) {
        (Some(s), Some(l)) => format!("-{}, --{}", s, l),
        (None, Some(l)) => format!("--{}", l),
        (Some(s), None) => format!("-{}", s),
        _ => String::new(),
    };
    if !body.contains(&hterm) {
        return fail("help-flag-not-listed", hterm);
    }
    // (b) nothing else
    let (longs, shorts) = dash_tokens(&text);
    for l in &longs {
        if !allowed_longs.contains(l) {
            return fail("undeclared-or-hidden-name-in-help", format!("--{} is shown but is not the first long name of a visible item", l));
        }
    }
    for s in &shorts {
        if !allowed_shorts.contains(s) {
            return fail("undeclared-or-hidden-name-in-help", format!("-{} is shown but is not the first short name of a visible item", s));
        }
    }
    // (e) order of descr / usage / header / footer
    let idx = |d: &Option<DocSpec>| first_marker(d).and_then(|m| find_marker(&text, &m));
    let usage_at = text.find("Usage");
    let mut seq: Vec<(&str, usize)> = Vec::new();
    if level.info.descr.is_some() {
        match idx(&level.info.descr) {
            Some(i) => seq.push(("descr", i)),
            None => return fail("descr-missing", String::new()),
        }
    }
    if let Some(i) = usage_at {
        seq.push(("usage", i));
    }
    if level.info.header.is_some() {
        match idx(&level.info.header) {
            Some(i) => seq.push(("header", i)),
            None => return fail("header-missing", String::new()),
        }
    }
    if let Some(i) = text.find("Available") {
        seq.push(("items", i));
    }
    if level.info.footer.is_some() {
        match idx(&level.info.footer) {
            Some(i) => seq.push(("footer", i)),
            None => return fail("footer-missing", String::new()),
        }
    }
    if seq.windows(2).any(|w| w[0].1 > w[1].1) {
        return fail("sections-out-of-order", format!("{:?}", seq));
    }

    // (c) usage-only decorations
    if has_usage_decor(level) {
        let bare_root = Level {
            body: strip_usage_decor(&root.body),
            info: root.info.clone(),
        };
        let p2 = build_level(&bare_root);
        if let Outcome::Stdout { text: t2, .. } = run_cfg(&p2, &argv, &RunCfg::default()) {
            ctx.eval(1);
            if without_usage(&t2) != body {
                return fail(
                    "usage-decoration-changes-item-lists",
                    format!("without hide_usage/custom_usage the text outside the usage line is:\n{}", without_usage(&t2)),
                );
            }
            ctx.class("usage-decoration-differential");
        }
    }

    // (d) every shown name is accepted
    for v in &vis {
        if let Thing::Named(x) = &v.thing {
            if v.hidden || v.in_adjacent || v.grouped {
                continue;
            }
            let mut line: Vec<Vec<u8>> = path.iter().map(|p| p.as_bytes().to_vec()).collect();
            let name = x.first_name();
            if x.is_arg() {
                // `name=value` is accepted by ordinary and adjacent()-restricted arguments alike
                line.push(format!("{}=7", name).into_bytes());
            } else {
                line.push(name.clone().into_bytes());
            }
            let o = run_cfg(&parser, &line, &RunCfg::default());
            ctx.eval(1);
            if let Outcome::Stderr(t) = &o {
                let complains = (t.contains("is not expected in this context") || t.contains("no such flag"))
                    && t.contains(&name);
                if complains {
                    return fail("shown-name-not-accepted", format!("{:?} -> {:?}", show_argv(&line), t));
                }
            }
            if let Outcome::Panic { at, msg } = &o {
                return Verdict::fail(format!("panic@{}", at), msg.clone());
            }
        }
    }
    let decorated = level.body.count_kind(false, &|n| {
        matches!(
            n,
            Node::HideUsage(_) | Node::CustomUsage(..) | Node::GroupHelp(..) | Node::WithGroupHelp(..)
        )
    }) > 0;
    if n_hidden >= 1 && n_alias >= 1 && decorated && n_visible >= 4 {
        ctx.nontrivial(fnv_str(&format!("{:?}{:?}", root, path)));
    }
    ctx.class("level-checked");
    Verdict::Pass
}

impl Prop for C12 {
    fn id(&self) -> &'static str {
        "C12"
    }
    fn cases(&self) -> (u64, u64) {
        (200_000, 1_000_000)
    }
    fn rule(&self) -> &'static str {
        "choice bytes -> broad definition with every decoration (hide, hide_usage, custom_usage, \
         group_help, with_group_help, fallback display, aliases, adjacent groups, nested and hidden \
         commands, version or not, custom help names); help texts, descriptions, headers and \
         footers carry unique marker words; EVERY command level reachable by a path of names is \
         checked. Oracle (expectation computed from the definition + tokenisation of the help \
         text): (a) every visible named item outside adjacent groups has its term (first short / \
         first long / =METAVAR) followed by its first-paragraph marker, positionals with help and \
         commands likewise, the help (and version) flags are listed, members of adjacent groups \
         appear at least in the group's usage line; (b) every -x / --name token anywhere in the \
         text is the first name of a visible item, no marker of a hidden item, no alias; (c) the \
         same definition with hide_usage/custom_usage removed gives identical text outside the \
         usage block; (d) [path.., name(, value)] is never answered with 'not expected in this \
         context'/'no such flag' about that name; (e) descr, usage, header, item lists, footer \
         appear in this order. Non-trivial: level with >=1 hidden item, >=1 alias, a decoration and \
         >=4 visible items; distinct by hash of (definition, path)."
    }
    fn check(&self, bytes: &[u8], ctx: &mut Ctx) -> Verdict {
        // one case in sixteen belongs to the `any` family
        if bytes.first().map_or(false, |b| b % 16 == 15) {
            return check_any(&bytes[1..], ctx);
        }
        let case = decode(bytes);
        if let Err((at, msg)) = guarded(|| build_level(&case.level).check_invariants(false)) {
            return Verdict::fail(
                "generator/invariants",
                format!("check_invariants panicked at {}: {}", at, msg),
            );
        }
        for (path, l) in levels_with_paths(&case.level) {
            // a level under a hidden command is still reachable; check it too
            match check_level(&case.level, &path, l, ctx) {
                Verdict::Pass => {}
                other => return other,
            }
        }
        Verdict::Pass
    }
    fn describe(&self, bytes: &[u8]) -> Value {
        if bytes.first().map_or(false, |b| b % 16 == 15) {
            let c = decode_any(&bytes[1..]);
            return json!({
                "family": "any(..) items with help, alone and inside an adjacent block",
                "definition": show_level(&c.root),
                "level": c.path.join(" "),
                "help markers (hidden?)": c.markers.iter().map(|(m, h)| format!("{}{}", m, if *h { " hidden" } else { "" })).collect::<Vec<_>>(),
            });
        }
        let case = decode(bytes);
        json!({
            "definition": show_level(&case.level),
            "levels": levels_with_paths(&case.level).iter().map(|(p, _)| p.join(" ")).collect::<Vec<_>>(),
        })
    }
}
