//! C13 — console rendering never loses text and respects the width.

use serde_json::{json, Value};

use crate::broad::*;
use crate::build::build_level;
use crate::engine::{Ctx, Prop, Verdict};
use crate::gen::*;
use crate::outcome::{guarded, run_raw, show_argv, RunCfg};
use crate::props::c02::hidden_leaves;
use crate::props::c10::levels_with_paths;
use crate::spec::*;
use crate::un::{fnv_str, Un};

pub struct C13;

pub struct Case {
    pub level: Level,
    pub argv: Vec<Vec<u8>>,
    pub path: Vec<String>,
    pub is_help: bool,
    pub widths: Vec<usize>,
}

fn cfg() -> BroadCfg {
    BroadCfg {
        max_fields: 5,
        help: HelpGen::Grammar,
        version: true,
        ..BroadCfg::default()
    }
}

pub fn decode(bytes: &[u8], thorough: bool) -> Case {
    let mut u = Un::new(bytes);
    let mut names = Names::new();
    names.long_names = true;
    let level = gen_broad_level(&mut u, &mut names, &cfg(), 1);
    let lv = levels_with_paths(&level);
    let (path, _) = lv[u.below(lv.len())].clone();
    let is_help = u.chance(200);
    let mut argv: Vec<Vec<u8>> = path.iter().map(|p| p.as_bytes().to_vec()).collect();
    if is_help {
        argv.push(b"--help".to_vec());
        if u.chance(100) {
            argv.push(b"--help".to_vec());
        }
    } else {
        // an error document
        let sent = SentGen {
            names: &mut names,
            mode: ValMode::Tokens,
            in_group: false,
        }
        .level(&mut u, &level);
        let prep = prepare(&sent);
        let lay = layout(&mut u, &prep, true, false);
        let opts = SpellOpts::default();
        let mut ex = 0;
        let plan = plan_spelling(&mut u, &lay, &opts, &mut ex);
        let mut st = SpellStats::default();
        let (mut a, _) = render(&lay, &plan, &opts, &mut st);
        let mut log = Vec::new();
        crate::props::c01::mutate(&mut u, &level, &mut a, &mut log);
        argv = a;
    }
    let mut widths: Vec<usize> = if thorough {
        (1..=300).collect()
    } else {
        vec![1, 2, 5, 20, 39, 40, 41, 60, 80, 100, 120, 300]
    };
    if !thorough {
        widths.push(1 + u.below(300));
        widths.push(40 + u.below(80));
    }
    Case {
        level,
        argv,
        path,
        is_help,
        widths,
    }
}

fn strip_ws(s: &str) -> String {
    s.chars().filter(|c| !c.is_whitespace()).collect()
}

fn metavar_fmt(mv: &str) -> String {
    if mv
        .chars()
        .all(|c| c.is_uppercase() || c.is_ascii_digit() || c == '-' || c == '_')
    {
        mv.to_owned()
    } else {
        format!("<{}>", mv)
    }
}

/// definition terms as they are printed in the item lists of every level
pub fn term_strings(root: &Level) -> Vec<String> {
    let mut out = vec![
        "-h, --help".to_owned(),
        "-V, --version".to_owned(),
    ];
    root.body.walk(true, &mut |n| match n {
        Node::Named(x) => {
            let base = match (x.shorts.first(), x.longs.first()) {
                (Some(s), Some(l)) => format!("-{}, --{}", s, l),
                (Some(s), None) => format!("-{}", s),
                (None, Some(l)) => format!("--{}", l),
                (None, None) => String::new(),
            };
            match &x.kind {
                NamedKind::Arg { metavar, .. } => {
                    out.push(format!("{}={}", base, metavar_fmt(metavar)))
                }
                _ => out.push(base),
            }
        }
        Node::Pos(p) => out.push(metavar_fmt(&p.metavar)),
        Node::Cmd(c) => {
            out.push(match c.shorts.first() {
                Some(s) => format!("{}, {}", c.name, s),
                None => c.name.clone(),
            });
        }
        _ => {}
    });
    out.sort_by_key(|t| std::cmp::Reverse(t.len()));
    out
}

fn markers_with_prefix(text: &str, prefix: &str) -> Vec<String> {
    let mut out = Vec::new();
    let mut rest = text;
    while let Some(p) = rest.find(prefix) {
        let tail = &rest[p + prefix.len()..];
        let digits: String = tail.chars().take_while(|c| c.is_ascii_digit()).collect();
        if !digits.is_empty() {
            let full = format!("{}{}", prefix, digits);
            if !out.contains(&full) {
                out.push(full);
            }
        }
        rest = tail;
    }
    out
}

impl Prop for C13 {
    fn id(&self) -> &'static str {
        "C13"
    }
    fn max_len(&self) -> usize {
        512
    }
    fn cases(&self) -> (u64, u64) {
        (80_000, 300_000)
    }
    fn rule(&self) -> &'static str {
        "choice bytes -> broad definition whose help/descr/header/footer texts come from a text \
         grammar (1-3 paragraphs, soft newlines, hard breaks, 4-space code lines, words of 1-90 \
         characters incl. multi-byte, combining marks, tabs and control characters, option names up \
         to 65 characters) -> a real document: the help of a randomly chosen command level (short or \
         full) or the error document of a mutated line -> rendered with format!(\"{:w$}\") at 14 \
         widths (always 1,2,5,20,39,40,41,60,80,100,120,300 plus two generated ones; thorough: every \
         width 1..=300). Oracle: (1) the text with all whitespace removed equals the one rendered at \
         width 65535; (2) for w>=40 every line has <= w+2 characters unless it is a code line or, \
         after its indentation and optional definition term, a single word; (3) the short form has \
         every first-paragraph marker the full form has and no later-paragraph marker, and the \
         markers of all visible items of the level. Non-trivial: a width that forces at least one \
         wrap (rendering differs from the unwrapped one); distinct by hash of (document, width)."
    }
    fn check(&self, bytes: &[u8], ctx: &mut Ctx) -> Verdict {
        let case = decode(bytes, ctx.tier_thorough);
        let parser = match guarded(|| {
            let p = build_level(&case.level);
            p.check_invariants(false);
            p
        }) {
            Ok(p) => p,
            Err((at, msg)) => {
                return Verdict::fail(
                    "generator/invariants",
                    format!("check_invariants panicked at {}: {}", at, msg),
                )
            }
        };
        let raw = match run_raw(&parser, &case.argv, &RunCfg::default()) {
            Ok(r) => r,
            Err((at, msg)) => return Verdict::fail(format!("panic@{}", at), msg),
        };
        ctx.eval(1);
        let (doc, full) = match raw {
            Err(bpaf::ParseFailure::Stdout(d, f)) => (d, f),
            Err(bpaf::ParseFailure::Stderr(d)) => (d, true),
            _ => return Verdict::Skip("no document produced"),
        };
        ctx.class(if case.is_help { "help-document" } else { "error-document" });
        let unwrapped = match guarded(|| format!("{:65535}", doc)) {
            Ok(s) => s,
            Err((at, msg)) => return Verdict::fail(format!("panic@{}", at), msg),
        };
        let reference = strip_ws(&unwrapped);
        let terms = term_strings(&case.level);
        let doc_hash = fnv_str(&unwrapped);
        for &w in &case.widths {
            let s = match guarded(|| format!("{:w$}", doc, w = w)) {
                Ok(s) => s,
                Err((at, msg)) => {
                    return Verdict::fail(
                        format!("panic@{}", at),
                        format!("width {}: {}", w, msg),
                    )
                }
            };
            ctx.eval(1);
            if s != unwrapped {
                ctx.nontrivial(doc_hash ^ (w as u64).wrapping_mul(0x9e3779b97f4a7c15));
            }
            // (1)
            let stripped = strip_ws(&s);
            if stripped != reference {
                // locate the first difference
                let a: Vec<char> = stripped.chars().collect();
                let b: Vec<char> = reference.chars().collect();
                let p = a.iter().zip(b.iter()).position(|(x, y)| x != y).unwrap_or(a.len().min(b.len()));
                let ctx_of = |v: &[char]| -> String {
                    v[p.saturating_sub(15)..(p + 15).min(v.len())].iter().collect()
                };
                return Verdict::fail(
                    "wrapping-changes-text",
                    format!(
                        "{:?} at width {}: non-whitespace content differs from the unwrapped rendering near {:?} (wrapped) vs {:?} (unwrapped)",
                        show_argv(&case.argv),
                        w,
                        ctx_of(&a),
                        ctx_of(&b)
                    ),
                );
            }
            // (2)
            if w >= 40 {
                for line in s.lines() {
                    let n = line.chars().count();
                    if n <= w + 2 {
                        continue;
                    }
                    let t = line.trim_start();
                    if t.starts_with("code line") {
                        continue;
                    }
                    let single = |x: &str| !x.trim().contains(' ');
                    if single(t) {
                        continue;
                    }
                    // the definition term, or the tail of one that was itself wrapped between its
                    // fragments (name, `=`, metavariable), followed by a single word
                    if terms.iter().any(|term| {
                        let term = term.trim_start();
                        term.char_indices().any(|(i, _)| {
                            let suffix = &term[i..];
                            t.starts_with(suffix) && single(&t[suffix.len()..])
                        })
                    }) {
                        continue;
                    }
                    return Verdict::fail(
                        "line-longer-than-width",
                        format!(
                            "{:?} at width {}: line of {} characters: {:?}",
                            show_argv(&case.argv),
                            w,
                            n,
                            line
                        ),
                    );
                }
            }
        }
        // (3) short form
        if case.is_help && !full {
            let short = doc.monochrome(false);
            let long = doc.monochrome(true);
            ctx.eval(2);
            for m in markers_with_prefix(&long, "Hlp") {
                if !short.contains(&m) {
                    return Verdict::fail(
                        "short-help-loses-first-paragraph",
                        format!("{:?}: marker {} is in the full form only", show_argv(&case.argv), m),
                    );
                }
            }
            if let Some(m) = markers_with_prefix(&short, "Deep").first() {
                return Verdict::fail(
                    "short-help-shows-later-paragraph",
                    format!("{:?}: marker {} in the short form:\n{}", show_argv(&case.argv), m, short),
                );
            }
            // markers of visible items of this level
            let lv = levels_with_paths(&case.level);
            if let Some((_, l)) = lv.iter().find(|(p, _)| *p == case.path) {
                let hidden = hidden_leaves(l);
                for leaf in l.body.named_leaves(false) {
                    if hidden.contains(&leaf.id) {
                        continue;
                    }
                    if let Some(h) = &leaf.help {
                        // the whole first paragraph (up to the first empty line), not only its marker
                        let flat = h.flat();
                        let first = strip_ws(flat.split("\n\n").next().unwrap_or(""));
                        if !first.is_empty() && !strip_ws(&short).contains(&first) {
                            return Verdict::fail(
                                "short-help-truncates-first-paragraph",
                                format!(
                                    "{:?}: the first paragraph of the help of {} is {:?}; the short form does not contain all of it:\n{}",
                                    show_argv(&case.argv),
                                    leaf.first_name(),
                                    flat.split("\n\n").next().unwrap_or(""),
                                    short
                                ),
                            );
                        }
                        if let Some(m) = markers_with_prefix(&h.flat(), "Hlp").first() {
                            if !short.contains(m) {
                                return Verdict::fail(
                                    "short-help-misses-item-help",
                                    format!(
                                        "{:?}: first paragraph marker {} of {} is not shown:\n{}",
                                        show_argv(&case.argv),
                                        m,
                                        leaf.first_name(),
                                        short
                                    ),
                                );
                            }
                        }
                    }
                }
            }
            ctx.class("short-form-checked");
        }
        Verdict::Pass
    }
    fn describe(&self, bytes: &[u8]) -> Value {
        let case = decode(bytes, false);
        json!({
            "definition": show_level(&case.level),
            "argv": show_argv(&case.argv),
            "widths": case.widths,
        })
    }
}
