//! C03 — order of named options is irrelevant.

use serde_json::{json, Value};

use crate::broad::*;
use crate::build::build_level;
use crate::engine::{Ctx, Prop, Verdict};
use crate::gen::*;
use crate::outcome::{guarded, run, show_argv, Outcome};
use crate::spec::*;
use crate::un::{fnv_str, Un};

pub struct C03;

pub struct Case {
    pub level: Level,
    pub prep: Prepared,
    pub base: Layout,
    pub perm: Layout,
    pub plan: SpellPlan,
    pub mutated: Option<String>,
    pub excluded: u64,
}

fn cfg() -> BroadCfg {
    BroadCfg {
        adjacent: false,
        max_fields: 6,
        ..BroadCfg::default()
    }
}

pub fn decode(bytes: &[u8]) -> Case {
    let mut u = Un::new(bytes);
    let mut names = Names::new();
    let level = gen_broad_level(&mut u, &mut names, &cfg(), 1);
    let sent = SentGen {
        names: &mut names,
        mode: ValMode::Tokens,
        in_group: false,
    }
    .level(&mut u, &level);
    let mut prep = prepare(&sent);
    let mut mutated = None;
    if u.chance(60) {
        let li = u.below(prep.levels.len());
        let n = prep.levels[li].units.len();
        if n > 0 {
            let at = u.below(n);
            if u.bool() {
                prep.levels[li].units.remove(at);
                mutated = Some(format!("deleted unit {} of level {}", at, li));
            } else {
                let mut dup = prep.levels[li].units[at].clone();
                for it in &mut dup.items {
                    it.uid += 10_000;
                }
                prep.levels[li].units.insert(at, dup);
                mutated = Some(format!("duplicated unit {} of level {}", at, li));
            }
        }
    }
    let base = layout(&mut u, &prep, false, false);
    let perm = layout(&mut u, &prep, true, false);
    // spellings that are known not to be interchangeable (C02's findings) are not used here:
    // this property is about order only
    let opts = SpellOpts {
        clusters: false,
        no_glued_non_utf8: true,
        no_hidden_in_cluster: crate::props::c02::hidden_leaves(&level),
    };
    let mut excluded = 0;
    let plan = plan_spelling(&mut u, &base, &opts, &mut excluded);
    Case {
        level,
        prep,
        base,
        perm,
        plan,
        mutated,
        excluded,
    }
}

pub fn same_outcome(a: &Outcome, b: &Outcome) -> bool {
    match (a, b) {
        (Outcome::Value(x), Outcome::Value(y)) => x == y,
        (Outcome::Stderr(_), Outcome::Stderr(_)) => true,
        (Outcome::Stdout { .. }, Outcome::Stdout { .. }) => true,
        _ => false,
    }
}

/// how many named units changed their position, and whether a named unit sits between two
/// positional words in the permuted line
fn movement(base: &Layout, perm: &Layout) -> (usize, bool) {
    let order = |l: &Layout| -> Vec<usize> {
        let mut seen = Vec::new();
        for it in &l.items {
            if matches!(it.kind, LKind::Occ(_)) {
                seen.push(it.uid);
            }
        }
        seen
    };
    let a = order(base);
    let b = order(perm);
    let moved = a.iter().zip(b.iter()).filter(|(x, y)| x != y).count();
    let mut between = false;
    let kinds: Vec<u8> = perm
        .items
        .iter()
        .map(|i| match i.kind {
            LKind::Word(_) if i.group.is_none() => b'w',
            LKind::Occ(_) => b'n',
            _ => b'x',
        })
        .collect();
    for i in 0..kinds.len() {
        if kinds[i] == b'n'
            && kinds[..i].contains(&b'w')
            && kinds[i + 1..].contains(&b'w')
        {
            between = true;
        }
    }
    (moved, between)
}

impl Prop for C03 {
    fn id(&self) -> &'static str {
        "C03"
    }
    fn cases(&self) -> (u64, u64) {
        (400_000, 2_000_000)
    }
    fn rule(&self) -> &'static str {
        "choice bytes -> broad definition without adjacent groups -> sentence built first (unique \
         tokens; 1/4 of them made arity-invalid by deleting or duplicating a whole named block) -> \
         canonical layout and a permuted layout of the same blocks (a flag, or an argument with its \
         value, stay one block; blocks feeding the same top-level field keep their relative order; \
         positional words keep their order; nothing crosses a command name or `--`), both rendered \
         with the same spelling per occurrence. Oracle (metamorphic): equal values, failing lines \
         stay failing. In the thorough tier every admissible permutation is enumerated for levels \
         with <=5 blocks. Non-trivial: >=3 blocks changed position, or a named block sits between \
         two positional words; distinct by hash of (definition, both argument vectors)."
    }
    fn check(&self, bytes: &[u8], ctx: &mut Ctx) -> Verdict {
        let case = decode(bytes);
        for _ in 0..case.excluded {
            ctx.excluded("spelling covered by a C02 known finding");
        }
        let parser = match guarded(|| {
            let p = build_level(&case.level);
            p.check_invariants(false);
            p
        }) {
            Ok(p) => p,
            Err((at, msg)) => {
                return Verdict::fail(
                    "generator/invariants",
                    format!("check_invariants panicked at {}: {}", at, msg),
                )
            }
        };
        let opts = SpellOpts::default();
        let mut st = SpellStats::default();
        let (argv_a, _) = render(&case.base, &case.plan, &opts, &mut st);
        let (argv_b, _) = render(&case.perm, &case.plan, &opts, &mut st);
        let out_a = run(&parser, &argv_a);
        ctx.eval(1);
        if let Outcome::Panic { at, msg } = &out_a {
            return Verdict::fail(format!("panic@{}", at), msg.clone());
        }
        ctx.class(&format!("outcome:{}", out_a.class()));
        if case.mutated.is_some() {
            ctx.class("arity-mutant");
        }
        let (moved, between) = movement(&case.base, &case.perm);
        if between {
            ctx.class("named-between-positionals");
        }
        if (moved >= 3 || between) && argv_a != argv_b {
            ctx.nontrivial(fnv_str(&format!("{:?}{:?}{:?}", case.level, argv_a, argv_b)));
        }

        let mut candidates: Vec<Layout> = vec![case.perm.clone()];
        if ctx.tier_thorough {
            // exhaustive over the admissible permutations of the largest level
            if let Some((li, pl)) = case
                .prep
                .levels
                .iter()
                .enumerate()
                .max_by_key(|(_, l)| l.units.len())
            {
                if pl.units.len() >= 2 && pl.units.len() <= 5 {
                    let perms = admissible_perms(&pl.units, 200);
                    ctx.class("exhaustive-permutations");
                    for p in perms {
                        let mut all: Vec<Vec<usize>> = case
                            .prep
                            .levels
                            .iter()
                            .map(|l| (0..l.units.len()).collect())
                            .collect();
                        all[li] = p;
                        for lead in [0usize, 1] {
                            let mut leads = vec![0; case.prep.levels.len()];
                            leads[li] = lead;
                            candidates.push(layout_fixed(&case.prep, &all, &leads));
                        }
                    }
                }
            }
        }
        for lay in candidates {
            let (argv_b, _) = render(&lay, &case.plan, &opts, &mut st);
            if argv_b == argv_a {
                continue;
            }
            let out_b = run(&parser, &argv_b);
            ctx.eval(1);
            if let Outcome::Panic { at, msg } = &out_b {
                return Verdict::fail(format!("panic@{}", at), msg.clone());
            }
            if !same_outcome(&out_a, &out_b) {
                return Verdict::fail(
                    format!("order-changes-outcome/{}->{}", out_a.class(), out_b.class()),
                    format!(
                        "permuting named blocks changed the outcome:\n  {:?} -> {}\n  {:?} -> {}",
                        show_argv(&argv_a),
                        out_a.short(),
                        show_argv(&argv_b),
                        out_b.short()
                    ),
                );
            }
        }
        Verdict::Pass
    }
    fn describe(&self, bytes: &[u8]) -> Value {
        let case = decode(bytes);
        let opts = SpellOpts::default();
        let mut st = SpellStats::default();
        let (a, _) = render(&case.base, &case.plan, &opts, &mut st);
        let (b, _) = render(&case.perm, &case.plan, &opts, &mut st);
        json!({
            "definition": show_level(&case.level),
            "argv": show_argv(&a),
            "argv_permuted": show_argv(&b),
            "sentence_mutation": case.mutated,
        })
    }
}
