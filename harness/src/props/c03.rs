//! C03 — order of named options is irrelevant.

use serde_json::{json, Value};

use crate::broad::*;
use crate::build::build_level;
use crate::engine::{Ctx, Prop, Regression, Verdict};
use crate::gen::*;
use crate::outcome::{guarded, run, show_argv, Outcome};
use crate::spec::*;
use crate::un::{fnv_str, Un};

pub struct C03;

pub struct Case {
    pub level: Level,
    pub prep: Prepared,
    pub base: Layout,
    pub perm: Layout,
    pub plan: SpellPlan,
    pub mutated: Option<String>,
    pub excluded: u64,
}

fn cfg() -> BroadCfg {
    BroadCfg {
        adjacent: false,
        max_fields: 6,
        ..BroadCfg::default()
    }
}

pub fn decode(bytes: &[u8]) -> Case {
    let mut u = Un::new(bytes);
    let mut names = Names::new();
    let level = gen_broad_level(&mut u, &mut names, &cfg(), 1);
    let sent = SentGen {
        names: &mut names,
        mode: ValMode::Tokens,
        in_group: false,
    }
    .level(&mut u, &level);
    let mut prep = prepare(&sent);
    let mut mutated = None;
    if u.chance(60) {
        let li = u.below(prep.levels.len());
        let n = prep.levels[li].units.len();
        if n > 0 {
            let at = u.below(n);
            if u.bool() {
                prep.levels[li].units.remove(at);
                mutated = Some(format!("deleted unit {} of level {}", at, li));
            } else {
                let mut dup = prep.levels[li].units[at].clone();
                for it in &mut dup.items {
                    it.uid += 10_000;
                }
                prep.levels[li].units.insert(at, dup);
                mutated = Some(format!("duplicated unit {} of level {}", at, li));
            }
        }
    }
    let base = layout(&mut u, &prep, false, false);
    let perm = layout(&mut u, &prep, true, false);
    // spellings that are known not to be interchangeable (C02's findings) are not used here:
    // this property is about order only
    let opts = SpellOpts {
        clusters: false,
        no_glued_non_utf8: true,
        no_hidden_in_cluster: crate::props::c02::hidden_leaves(&level),
    };
    let mut excluded = 0;
    let plan = plan_spelling(&mut u, &base, &opts, &mut excluded);
    Case {
        level,
        prep,
        base,
        perm,
        plan,
        mutated,
        excluded,
    }
}

pub fn same_outcome(a: &Outcome, b: &Outcome) -> bool {
    match (a, b) {
        (Outcome::Value(x), Outcome::Value(y)) => x == y,
        (Outcome::Stderr(_), Outcome::Stderr(_)) => true,
        (Outcome::Stdout { .. }, Outcome::Stdout { .. }) => true,
        _ => false,
    }
}

/// how many named units changed their position, and whether a named unit sits between two
/// positional words in the permuted line
fn movement(base: &Layout, perm: &Layout) -> (usize, bool) {
    let order = |l: &Layout| -> Vec<usize> {
        let mut seen = Vec::new();
        for it in &l.items {
            if matches!(it.kind, LKind::Occ(_)) {
                seen.push(it.uid);
            }
        }
        seen
    };
    let a = order(base);
    let b = order(perm);
    let moved = a.iter().zip(b.iter()).filter(|(x, y)| x != y).count();
    let mut between = false;
    let kinds: Vec<u8> = perm
        .items
        .iter()
        .map(|i| match i.kind {
            LKind::Word(_) if i.group.is_none() => b'w',
            LKind::Occ(_) => b'n',
            _ => b'x',
        })
        .collect();
    for i in 0..kinds.len() {
        if kinds[i] == b'n'
            && kinds[..i].contains(&b'w')
            && kinds[i + 1..].contains(&b'w')
        {
            between = true;
        }
    }
    (moved, between)
}


// ---------------------------------------------------------------------------------------------
// second family: a repeated group whose members are a named lead and 1-2 positionals
// (`construct!(flag, positional).many()`, not adjacent): the named occurrences may stand anywhere
// among the words, each block takes the next lead and the next words in order
// ---------------------------------------------------------------------------------------------

/// known finding: inside a repeated group the positional member takes the detached value of a
/// later occurrence of the group's argument
pub const SIG_GROUP_DETACHED: &str =
    "order-changes-outcome/group-with-positionals/argument-value-taken-as-positional";

pub struct GroupCase {
    pub level: Level,
    pub base: Vec<Vec<u8>>,
    pub perm: Vec<Vec<u8>>,
    /// the base line is a sentence
    pub sentence: bool,
    pub tokens: Vec<Vec<u8>>,
    /// the lead is an argument and some occurrence is not spelled `name=value`
    pub lead_detached: bool,
}

pub fn decode_group(bytes: &[u8]) -> GroupCase {
    let mut u = Un::new(bytes);
    let mut names = Names::new();
    let mut fields: Vec<Node> = Vec::new();
    let mut others: Vec<NamedSpec> = Vec::new();
    for _ in 0..u.below(3) {
        let n = if u.bool() {
            gen_named_leaf(&mut u, &mut names, NamedKind::Switch)
        } else {
            gen_named_leaf(
                &mut u,
                &mut names,
                NamedKind::Arg {
                    ty: Ty::Str,
                    metavar: "ARG".into(),
                    adjacent: false,
                },
            )
        };
        others.push(n.clone());
        fields.push(if n.is_arg() {
            Node::Optional {
                n: Node::Named(n).b(),
                catch: false,
            }
        } else {
            Node::Named(n)
        });
    }
    let lead = if u.bool() {
        gen_named_leaf(&mut u, &mut names, NamedKind::ReqFlag)
    } else {
        gen_named_leaf(
            &mut u,
            &mut names,
            NamedKind::Arg {
                ty: Ty::Str,
                metavar: "LEAD".into(),
                adjacent: false,
            },
        )
    };
    let n_pos = 1 + u.below(2);
    let mut members = vec![Node::Named(lead.clone())];
    for _ in 0..n_pos {
        members.push(Node::Pos(PosSpec {
            id: names.id(),
            metavar: "WORD".into(),
            ty: Ty::Str,
            help: None,
            strict: Strictness::Unrestricted,
        }));
    }
    let group = Node::Seq(members);
    let some = u.chance(80);
    fields.push(if some {
        Node::Some {
            n: group.b(),
            catch: false,
            msg: "need a block".into(),
        }
    } else {
        Node::Many {
            n: group.b(),
            catch: false,
        }
    });
    let level = Level::simple(Node::Seq(fields));

    // blocks
    let k = u.weighted(&[1, 3, 4, 3]);
    let mut tokens: Vec<Vec<u8>> = Vec::new();
    let mut named_units: Vec<Vec<Vec<u8>>> = Vec::new(); // leads in order
    let mut words: Vec<Vec<u8>> = Vec::new();
    let spell_unit = |u: &mut Un, names: &mut Names, n: &NamedSpec, tokens: &mut Vec<Vec<u8>>| -> Vec<Vec<u8>> {
        let value = if n.is_arg() {
            let v = format!("v{}", names.val()).into_bytes();
            tokens.push(v.clone());
            Some(v)
        } else {
            None
        };
        let o = Occ {
            leaf: n.id,
            alias: pick_alias(u, n),
            value,
            adjacent_only: false,
        };
        let ss = spellings_for(&o);
        spell(&o, *u.pick(&ss))
    };
    for _ in 0..k {
        named_units.push(spell_unit(&mut u, &mut names, &lead, &mut tokens));
        for _ in 0..n_pos {
            let w = format!("w{}", names.val()).into_bytes();
            tokens.push(w.clone());
            words.push(w);
        }
    }
    let mut other_units: Vec<Vec<Vec<u8>>> = Vec::new();
    for n in &others {
        if u.bool() {
            other_units.push(spell_unit(&mut u, &mut names, n, &mut tokens));
        }
    }
    // base: block after block, the other options after the blocks
    let mut base: Vec<Vec<u8>> = Vec::new();
    for b in 0..k {
        base.extend(named_units[b].iter().cloned());
        base.extend(words[b * n_pos..(b + 1) * n_pos].iter().cloned());
    }
    for o in &other_units {
        base.extend(o.iter().cloned());
    }
    // permuted: the words keep their order, the leads keep theirs, everything else is free
    #[derive(Clone)]
    enum Slot {
        Lead,
        Word,
        Other(usize),
    }
    let mut slots: Vec<Slot> = Vec::new();
    slots.extend(std::iter::repeat(Slot::Lead).take(k));
    slots.extend(std::iter::repeat(Slot::Word).take(words.len()));
    slots.extend((0..other_units.len()).map(Slot::Other));
    let order = u.permutation(slots.len());
    let (mut li, mut wi) = (0, 0);
    let mut perm: Vec<Vec<u8>> = Vec::new();
    for i in order {
        match &slots[i] {
            Slot::Lead => {
                perm.extend(named_units[li].iter().cloned());
                li += 1;
            }
            Slot::Word => {
                perm.push(words[wi].clone());
                wi += 1;
            }
            Slot::Other(j) => perm.extend(other_units[*j].iter().cloned()),
        }
    }
    // `--name value` and `-nvalue` both leave the value as a word of its own after tokenising
    let lead_detached = lead.is_arg()
        && named_units
            .iter()
            .any(|x| x.len() == 2 || !x[0].contains(&b'='));
    GroupCase {
        level,
        base,
        perm,
        sentence: k > 0 || !some,
        tokens,
        lead_detached,
    }
}

fn check_group(bytes: &[u8], ctx: &mut Ctx) -> Verdict {
    let case = decode_group(bytes);
    let parser = match guarded(|| {
        let p = build_level(&case.level);
        p.check_invariants(false);
        p
    }) {
        Ok(p) => p,
        Err((at, msg)) => {
            return Verdict::fail(
                "generator/invariants",
                format!("check_invariants panicked at {}: {}", at, msg),
            )
        }
    };
    let out_a = run(&parser, &case.base);
    let out_b = run(&parser, &case.perm);
    ctx.eval(2);
    ctx.class("family:group-with-positionals");
    for o in [&out_a, &out_b] {
        if let Outcome::Panic { at, msg } = o {
            return Verdict::fail(format!("panic@{}", at), msg.clone());
        }
    }
    if case.base != case.perm && case.tokens.len() >= 3 {
        ctx.nontrivial(fnv_str(&format!("{:?}{:?}{:?}", case.level, case.base, case.perm)));
    }
    if case.sentence {
        match &out_a {
            Outcome::Value(v) => {
                let mut leaves = Vec::new();
                v.leaves(&mut leaves);
                // every token of the line is in the value, in the order of the blocks
                let got: Vec<&Vec<u8>> = leaves.iter().filter(|l| case.tokens.contains(l)).collect();
                if got.len() != case.tokens.len() {
                    return Verdict::fail(
                        "group-family/token-lost-or-duplicated",
                        format!("{:?} -> {}", show_argv(&case.base), v),
                    );
                }
            }
            other => {
                return Verdict::fail(
                    "group-family/canonical-sentence-rejected",
                    format!("{:?} -> {}", show_argv(&case.base), other.short()),
                )
            }
        }
    }
    if !same_outcome(&out_a, &out_b) {
        return Verdict::fail(
            if case.lead_detached {
                SIG_GROUP_DETACHED
            } else {
                "order-changes-outcome/group-with-positionals"
            },
            format!(
                "{}\n  canonical {:?} -> {}\n  permuted  {:?} -> {}",
                show_level(&case.level),
                show_argv(&case.base),
                out_a.short(),
                show_argv(&case.perm),
                out_b.short()
            ),
        );
    }
    Verdict::Pass
}

// ---------------------------------------------------------------------------------------------
// third family: an option with an optional value - a choice between `--color=WHEN` (argument
// restricted with `adjacent()`) and the bare `--color` - next to other switches and a positional:
// every order of the items gives the same result, whatever stands to the right of `--color`
// ---------------------------------------------------------------------------------------------

pub struct OptValCase {
    pub level: Level,
    pub items: Vec<Vec<u8>>,
}

pub fn decode_optval(bytes: &[u8]) -> OptValCase {
    use crate::mk::*;
    let mut u = Un::new(bytes);
    let (s, l) = *u.pick(&[("c", "color"), ("", "color"), ("ñ", "when")]);
    let longs = [l];
    let with_value = arg_adj(s, &longs, Ty::Str);
    let bare = rf(s, &longs);
    let choice = alt(vec![with_value, bare]);
    let choice = if u.bool() { opt(choice) } else { choice };
    let mut fields = vec![choice];
    let mut items: Vec<Vec<u8>> = Vec::new();
    items.push(match u.below(3) {
        0 => format!("--{}=always", l).into_bytes(),
        _ => format!("--{}", l).into_bytes(),
    });
    if u.bool() {
        fields.insert(u.below(2), sw("v", &["verbose"]));
        if u.bool() {
            items.push(b"-v".to_vec());
        }
    }
    if u.bool() {
        fields.insert(u.below(fields.len() + 1), many(arg("D", &["define"], Ty::Str)));
        for i in 0..u.below(3) {
            items.push(format!("-Dk{}", i).into_bytes());
        }
    }
    let n_words = u.below(3);
    match n_words {
        0 => {}
        1 => fields.push(pos("FILE", Ty::Str)),
        _ => fields.push(many(pos("FILE", Ty::Str))),
    }
    for i in 0..n_words {
        items.push(format!("file{}.txt", i).into_bytes());
    }
    let mut level = lvl(seq(fields));
    assign_ids(&mut level);
    OptValCase { level, items }
}

fn check_optval(bytes: &[u8], ctx: &mut Ctx) -> Verdict {
    let case = decode_optval(bytes);
    let parser = match guarded(|| {
        let p = build_level(&case.level);
        p.check_invariants(false);
        p
    }) {
        Ok(p) => p,
        Err(_) => return Verdict::Skip("definition rejected by check_invariants"),
    };
    ctx.class("family:option-with-optional-value");
    // every order that keeps the words, and the occurrences of one option, in their own order
    let n = case.items.len();
    // words keep their order, and so do the occurrences of the repeated option
    let class = |it: &Vec<u8>| -> u8 {
        if !it.starts_with(b"-") {
            1
        } else if it.starts_with(b"-D") {
            2
        } else {
            0
        }
    };
    let mut orders: Vec<Vec<usize>> = vec![Vec::new()];
    for _ in 0..n {
        let mut next = Vec::new();
        for o in &orders {
            for k in 0..n {
                if o.contains(&k) {
                    continue;
                }
                let ck = class(&case.items[k]);
                if ck != 0 && (0..k).any(|j| class(&case.items[j]) == ck && !o.contains(&j)) {
                    continue;
                }
                let mut o2 = o.clone();
                o2.push(k);
                next.push(o2);
            }
        }
        orders = next;
    }
    let base: Vec<Vec<u8>> = case.items.clone();
    let first = run(&parser, &base);
    ctx.eval(1);
    if let Outcome::Panic { at, msg } = &first {
        return Verdict::fail(format!("panic@{}", at), msg.clone());
    }
    if orders.len() >= 6 {
        ctx.nontrivial(fnv_str(&format!("{:?}{:?}", case.level, case.items)));
    }
    for o in orders.iter().take(120) {
        let argv: Vec<Vec<u8>> = o.iter().map(|k| case.items[*k].clone()).collect();
        let out = run(&parser, &argv);
        ctx.eval(1);
        if let Outcome::Panic { at, msg } = &out {
            return Verdict::fail(format!("panic@{}", at), msg.clone());
        }
        if !same_outcome(&first, &out) {
            return Verdict::fail(
                format!("order-changes-outcome/option-with-optional-value/{}->{}", first.class(), out.class()),
                format!(
                    "{}\n  {:?} -> {}\n  {:?} -> {}",
                    show_level(&case.level),
                    show_argv(&base),
                    first.short(),
                    show_argv(&argv),
                    out.short()
                ),
            );
        }
    }
    Verdict::Pass
}

impl Prop for C03 {
    fn id(&self) -> &'static str {
        "C03"
    }
    fn cases(&self) -> (u64, u64) {
        (400_000, 2_000_000)
    }
    fn rule(&self) -> &'static str {
        "(7 cases in 8) choice bytes -> broad definition without adjacent groups -> sentence built first (unique \
         tokens; 1/4 of them made arity-invalid by deleting or duplicating a whole named block) -> \
         canonical layout and a permuted layout of the same blocks (a flag, or an argument with its \
         value, stay one block; blocks feeding the same top-level field keep their relative order; \
         positional words keep their order; nothing crosses a command name or `--`), both rendered \
         with the same spelling per occurrence. Oracle (metamorphic): equal values, failing lines \
         stay failing. In the thorough tier every admissible permutation is enumerated for levels \
         with <=5 blocks. Non-trivial: >=3 blocks changed position, or a named block sits between \
         two positional words; distinct by hash of (definition, both argument vectors)."
    }
    fn check(&self, bytes: &[u8], ctx: &mut Ctx) -> Verdict {
        // one case in eight belongs to the second family
        if bytes.first().map_or(false, |b| b % 8 == 7) {
            return check_group(&bytes[1..], ctx);
        }
        // one in thirty-two to the third
        if bytes.first().map_or(false, |b| b % 32 == 6) {
            return check_optval(&bytes[1..], ctx);
        }
        let case = decode(bytes);
        for _ in 0..case.excluded {
            ctx.excluded("spelling covered by a C02 known finding");
        }
        let parser = match guarded(|| {
            let p = build_level(&case.level);
            p.check_invariants(false);
            p
        }) {
            Ok(p) => p,
            Err((at, msg)) => {
                return Verdict::fail(
                    "generator/invariants",
                    format!("check_invariants panicked at {}: {}", at, msg),
                )
            }
        };
        let opts = SpellOpts::default();
        let mut st = SpellStats::default();
        let (mut argv_a, _) = render(&case.base, &case.plan, &opts, &mut st);
        let (mut argv_b, _) = render(&case.perm, &case.plan, &opts, &mut st);
        // a word that begins like a cluster: a declared non-ASCII short flag followed by a letter
        // nobody declares (`-éqw1`): bpaf reads such an item as a plain word wherever it stands.
        // Only on lines without `--` (behind it nothing is tokenised)
        let substitution: Option<(Vec<u8>, Vec<u8>)> = {
            let (flags, args) = case.level.visible_shorts();
            let mb = flags.iter().copied().find(|c| !c.is_ascii());
            let free = ['q', 'z', 'j', 'x']
                .into_iter()
                .find(|c| !flags.contains(c) && !args.contains(c));
            let word = case
                .prep
                .levels
                .iter()
                .flat_map(|l| l.words.iter())
                .find_map(|w| match &w.kind {
                    LKind::Word(b) if !b.starts_with(b"-") && std::str::from_utf8(b).is_ok() => {
                        Some(b.clone())
                    }
                    _ => None,
                });
            let no_dd = !argv_a.iter().any(|a| a.as_slice() == b"--");
            match (mb, free, word, no_dd && bytes.len() % 2 == 0) {
                (Some(m), Some(f), Some(w), true) => {
                    let new = format!("-{}{}{}", m, f, String::from_utf8_lossy(&w)).into_bytes();
                    Some((w, new))
                }
                _ => None,
            }
        };
        // an empty value attached with `=` (`--name=`): the occurrence is complete in itself, the
        // item to its right never becomes its value, whatever that item is
        let empty_value: Option<(Vec<u8>, Vec<u8>)> = if bytes.len() % 4 == 1 {
            let dd = argv_a.iter().position(|a| a.as_slice() == b"--").unwrap_or(argv_a.len());
            argv_a[..dd].iter().find_map(|it| {
                let eq = it.iter().position(|b| *b == b'=')?;
                if it.starts_with(b"--")
                    && eq + 1 < it.len()
                    && argv_a.iter().filter(|x| *x == it).count() == 1
                {
                    Some((it.clone(), it[..=eq].to_vec()))
                } else {
                    None
                }
            })
        } else {
            None
        };
        if empty_value.is_some() {
            ctx.class("empty-value-attached-with-equals");
        }
        let subst = |argv: &mut Vec<Vec<u8>>| {
            if let Some((w, new)) = &substitution {
                for it in argv.iter_mut() {
                    if it == w {
                        *it = new.clone();
                    }
                }
            }
            if let Some((w, new)) = &empty_value {
                let dd = argv.iter().position(|a| a.as_slice() == b"--").unwrap_or(argv.len());
                for it in argv[..dd].iter_mut() {
                    if it == w {
                        *it = new.clone();
                    }
                }
            }
        };
        subst(&mut argv_a);
        subst(&mut argv_b);
        let out_a = run(&parser, &argv_a);
        ctx.eval(1);
        if let Outcome::Panic { at, msg } = &out_a {
            return Verdict::fail(format!("panic@{}", at), msg.clone());
        }
        ctx.class(&format!("outcome:{}", out_a.class()));
        if argv_a.iter().any(|a| {
            a.len() > 3 && a[0] == b'-' && a[1] >= 0x80 && !a.contains(&b'=')
        }) {
            ctx.class("line-with-non-ascii-single-dash-item");
        }
        if argv_a.iter().any(|a| {
            std::str::from_utf8(a).map_or(false, |s| {
                let mut cs = s.chars();
                cs.next() == Some('-')
                    && cs.next().map_or(false, |c| !c.is_ascii())
                    && cs.next().map_or(false, |c| "qzjx".contains(c))
                    && !s.contains('=')
            })
        }) {
            ctx.class("cluster-looking-word");
        }
        if case.mutated.is_some() {
            ctx.class("arity-mutant");
        }
        let (moved, between) = movement(&case.base, &case.perm);
        if between {
            ctx.class("named-between-positionals");
        }
        if (moved >= 3 || between) && argv_a != argv_b {
            ctx.nontrivial(fnv_str(&format!("{:?}{:?}{:?}", case.level, argv_a, argv_b)));
        }

        let mut candidates: Vec<Layout> = vec![case.perm.clone()];
        if ctx.tier_thorough {
            // exhaustive over the admissible permutations of the largest level
            if let Some((li, pl)) = case
                .prep
                .levels
                .iter()
                .enumerate()
                .max_by_key(|(_, l)| l.units.len())
            {
                if pl.units.len() >= 2 && pl.units.len() <= 5 {
                    let perms = admissible_perms(&pl.units, 200);
                    ctx.class("exhaustive-permutations");
                    for p in perms {
                        let mut all: Vec<Vec<usize>> = case
                            .prep
                            .levels
                            .iter()
                            .map(|l| (0..l.units.len()).collect())
                            .collect();
                        all[li] = p;
                        for lead in [0usize, 1] {
                            let mut leads = vec![0; case.prep.levels.len()];
                            leads[li] = lead;
                            candidates.push(layout_fixed(&case.prep, &all, &leads));
                        }
                    }
                }
            }
        }
        for lay in candidates {
            let (mut argv_b, _) = render(&lay, &case.plan, &opts, &mut st);
            subst(&mut argv_b);
            if argv_b == argv_a {
                continue;
            }
            let out_b = run(&parser, &argv_b);
            ctx.eval(1);
            if let Outcome::Panic { at, msg } = &out_b {
                return Verdict::fail(format!("panic@{}", at), msg.clone());
            }
            if !same_outcome(&out_a, &out_b) {
                return Verdict::fail(
                    format!("order-changes-outcome/{}->{}", out_a.class(), out_b.class()),
                    format!(
                        "permuting named blocks changed the outcome:\n  {:?} -> {}\n  {:?} -> {}",
                        show_argv(&argv_a),
                        out_a.short(),
                        show_argv(&argv_b),
                        out_b.short()
                    ),
                );
            }
        }
        Verdict::Pass
    }
    fn regressions(&self) -> Vec<Regression> {
        vec![Regression {
            name: "repeated-group-positional-takes-detached-value",
            run: reg_group_detached,
        }]
    }
    fn describe(&self, bytes: &[u8]) -> Value {
        if bytes.first().map_or(false, |b| b % 32 == 6) {
            let c = decode_optval(&bytes[1..]);
            return json!({
                "family": "option with an optional value (adjacent argument or bare flag of the same name)",
                "definition": show_level(&c.level),
                "items (every order is run)": show_argv(&c.items),
            });
        }
        if bytes.first().map_or(false, |b| b % 8 == 7) {
            let g = decode_group(&bytes[1..]);
            return json!({
                "family": "repeated group with positional members",
                "definition": show_level(&g.level),
                "argv": show_argv(&g.base),
                "argv_permuted": show_argv(&g.perm),
            });
        }
        let case = decode(bytes);
        let opts = SpellOpts::default();
        let mut st = SpellStats::default();
        let (a, _) = render(&case.base, &case.plan, &opts, &mut st);
        let (b, _) = render(&case.perm, &case.plan, &opts, &mut st);
        json!({
            "definition": show_level(&case.level),
            "argv": show_argv(&a),
            "argv_permuted": show_argv(&b),
            "sentence_mutation": case.mutated,
        })
    }
}

/// `construct!(long("alpha").argument("LEAD"), positional("WORD")).many()`: the blocks written as
/// `--alpha v1 --alpha v3 w2 w4` fail (the positional takes `v3`), `--alpha v1 w2 --alpha v3 w4`
/// and `--alpha=v1 --alpha=v3 w2 w4` give the same two pairs
fn reg_group_detached(ctx: &mut Ctx) -> Verdict {
    use crate::mk::*;
    let l = lvl(seq(vec![many(seq(vec![
        arg("", &["alpha"], Ty::Str),
        pos("WORD", Ty::Str),
    ]))]));
    let p = build_level(&l);
    let a: Vec<Vec<u8>> = ["--alpha", "v1", "w2", "--alpha", "v3", "w4"]
        .iter()
        .map(|x| x.as_bytes().to_vec())
        .collect();
    let b: Vec<Vec<u8>> = ["--alpha", "v1", "--alpha", "v3", "w2", "w4"]
        .iter()
        .map(|x| x.as_bytes().to_vec())
        .collect();
    let c: Vec<Vec<u8>> = ["--alpha=v1", "--alpha=v3", "w2", "w4"]
        .iter()
        .map(|x| x.as_bytes().to_vec())
        .collect();
    let (oa, ob, oc) = (run(&p, &a), run(&p, &b), run(&p, &c));
    ctx.eval(3);
    if !same_outcome(&oa, &oc) || !matches!(oa, Outcome::Value(_)) {
        return Verdict::fail(
            "order-changes-outcome/group-with-positionals",
            format!("{:?} -> {} but {:?} -> {}", show_argv(&a), oa.short(), show_argv(&c), oc.short()),
        );
    }
    if !same_outcome(&oa, &ob) {
        return Verdict::fail(
            SIG_GROUP_DETACHED,
            format!("{:?} -> {} but {:?} -> {}", show_argv(&a), oa.short(), show_argv(&b), ob.short()),
        );
    }
    Verdict::Pass
}
