//! C05 — every command line item is used exactly once or the run fails.

use serde_json::{json, Value};

use crate::broad::*;
use crate::build::build_level;
use crate::engine::{Ctx, Prop, Verdict};
use crate::gen::*;
use crate::outcome::{guarded, run, show_argv, show_bytes, Outcome};
use crate::spec::*;
use crate::un::{fnv_str, Un};

pub struct C05;

pub struct Case {
    pub level: Level,
    pub lay: Layout,
    pub plan: SpellPlan,
    pub delivered: Vec<Vec<u8>>,
    pub opts: SpellOpts,
    /// positional slots of the innermost level entered: None = unbounded
    pub inner_slots: Option<usize>,
    pub inner_words: usize,
    pub repeatable: Vec<usize>,
    pub depth: usize,
    pub has_group: bool,
    /// defaulted groups of the root level
    pub groups: Vec<Vec<NamedSpec>>,
}

fn cfg() -> BroadCfg {
    BroadCfg {
        max_fields: 5,
        adjacent_cmds: true,
        wrapped_groups: true,
        ..BroadCfg::default()
    }
}

fn all_delivered(s: &BSent, out: &mut Vec<Vec<u8>>) {
    out.extend(s.delivered.iter().cloned());
    if let Some((_, sub)) = &s.cmd {
        all_delivered(sub, out);
    }
}

/// leaves that may legitimately occur more than once
pub fn repeatable_leaves(level: &Level) -> Vec<usize> {
    fn go(n: &Node, rep: bool, out: &mut Vec<usize>) {
        match n {
            Node::Named(x) => {
                if rep {
                    out.push(x.id);
                }
            }
            Node::Many { n, .. }
            | Node::Some { n, .. }
            | Node::Collect { n, .. }
            | Node::Count(n)
            | Node::Last(n) => go(n, true, out),
            // every instance of a chained (adjacent) command brings its own items
            Node::Cmd(c) => go(&c.level.body, rep && c.adjacent, out),
            other => {
                for c in other.children() {
                    go(c, rep, out);
                }
            }
        }
    }
    let mut out = Vec::new();
    go(&level.body, false, &mut out);
    out
}

/// groups of >=2 required named items under optional/fallback/fallback_with at the top of a
/// level: (leaf ids of the members)
pub fn defaulted_groups(level: &Level) -> Vec<Vec<NamedSpec>> {
    let mut out = Vec::new();
    let fields: Vec<&Node> = match &level.body {
        Node::Seq(xs) => xs.iter().collect(),
        other => vec![other],
    };
    for f in fields {
        let inner = match f {
            Node::Optional { n, .. } | Node::Fallback { n, .. } | Node::FallbackWith { n, ok: true, .. } => n,
            _ => continue,
        };
        if let Node::Seq(xs) = &**inner {
            let leaves: Vec<NamedSpec> = xs
                .iter()
                .filter_map(|x| match x {
                    Node::Named(l) => Some(l.clone()),
                    _ => None,
                })
                .collect();
            if leaves.len() == xs.len() && leaves.len() >= 2 {
                out.push(leaves);
            }
        }
    }
    out
}

/// number of positional words a level can take (None: unbounded), adjacent groups excluded
fn pos_slots(level: &Level) -> Option<usize> {
    fn go(n: &Node, unbounded: &mut bool, count: &mut usize, rep: bool) {
        match n {
            Node::Pos(_) => {
                if rep {
                    *unbounded = true;
                } else {
                    *count += 1;
                }
            }
            Node::Adjacent(_) | Node::Cmd(_) => {}
            Node::Many { n, .. }
            | Node::Some { n, .. }
            | Node::Collect { n, .. }
            | Node::Count(n)
            | Node::Last(n) => go(n, unbounded, count, true),
            other => {
                for c in other.children() {
                    go(c, unbounded, count, rep);
                }
            }
        }
    }
    let mut unb = false;
    let mut c = 0;
    go(&level.body, &mut unb, &mut c, false);
    if unb {
        None
    } else {
        Some(c)
    }
}

pub fn decode(bytes: &[u8]) -> Case {
    let mut u = Un::new(bytes);
    let mut names = Names::new();
    let level = gen_broad_level(&mut u, &mut names, &cfg(), 1);
    let sent = SentGen {
        names: &mut names,
        mode: ValMode::Tokens,
        in_group: false,
    }
    .level(&mut u, &level);
    let mut delivered = Vec::new();
    all_delivered(&sent, &mut delivered);
    // innermost level entered
    let mut cur_level = &level;
    let mut cur_sent = &sent;
    let mut depth = 1;
    while let Some((name, sub)) = &cur_sent.cmd {
        let c = cur_level
            .body
            .commands(false)
            .into_iter()
            .find(|c| c.all_names().contains(name))
            .expect("command of the sentence");
        cur_level = &c.level;
        cur_sent = sub;
        depth += 1;
    }
    let inner_slots = pos_slots(cur_level);
    let inner_words = cur_sent.words.len();
    let prep = prepare(&sent);
    let lay = layout(&mut u, &prep, true, true);
    let opts = SpellOpts {
        clusters: true,
        no_glued_non_utf8: true,
        no_hidden_in_cluster: crate::props::c02::hidden_leaves(&level),
    };
    let mut ex = 0;
    let plan = plan_spelling(&mut u, &lay, &opts, &mut ex);
    let has_group = lay.items.iter().any(|i| i.group.is_some());
    Case {
        groups: defaulted_groups(&level),
        repeatable: repeatable_leaves(&level),
        level,
        lay,
        plan,
        delivered,
        opts,
        inner_slots,
        inner_words,
        depth,
        has_group,
    }
}

fn multiset_eq(a: &[Vec<u8>], b: &[Vec<u8>]) -> bool {
    let mut a: Vec<&Vec<u8>> = a.iter().collect();
    let mut b: Vec<&Vec<u8>> = b.iter().collect();
    a.sort();
    b.sort();
    a == b
}

impl Prop for C05 {
    fn id(&self) -> &'static str {
        "C05"
    }
    fn cases(&self) -> (u64, u64) {
        (120_000, 1_200_000)
    }
    fn rule(&self) -> &'static str {
        "choice bytes -> broad definition (alternatives, optional/repeated groups, adjacent groups, \
         hidden items, subcommands) -> sentence built first with unique value tokens -> rendered \
         (random order, spelling, clusters, --). Oracle on accepted lines: (a) linearity - the \
         multiset of user tokens found in the result equals the multiset written (nothing dropped, \
         nothing delivered twice; `last` keeps only its last token by definition); (b) at EVERY \
         position an item that no parser can own is inserted - undeclared --zzz / -Z left of `--`, \
         a surplus word when the innermost level's positional slots are bounded and full (never \
         right after a detached argument name), a second copy of a single-use option, `=v` glued to \
         a flag - and the run must fail on stderr. Non-trivial: accepted line inside a subcommand \
         or containing an adjacent block, with >=4 items; distinct by hash of (definition, argv)."
    }
    fn check(&self, bytes: &[u8], ctx: &mut Ctx) -> Verdict {
        let case = decode(bytes);
        let parser = match guarded(|| {
            let p = build_level(&case.level);
            p.check_invariants(false);
            p
        }) {
            Ok(p) => p,
            Err((at, msg)) => {
                return Verdict::fail(
                    "generator/invariants",
                    format!("check_invariants panicked at {}: {}", at, msg),
                )
            }
        };
        let mut st = SpellStats::default();
        let (mut argv, src, owns) = render_full(&case.lay, &case.plan, &case.opts, &mut st);
        // a word that begins like a cluster - a declared non-ASCII short flag followed by a letter
        // nobody declares (`-éqw1`): bpaf reads such an item as one plain word, which must then be
        // delivered like any other word, and nothing around it may get lost. Only on lines
        // without `--`, on every other case
        let mut delivered = case.delivered.clone();
        if bytes.len() % 2 == 1 && !argv.iter().any(|a| a.as_slice() == b"--") {
            let (flags, _) = case.level.visible_shorts();
            let declared: Vec<char> = case
                .level
                .body
                .named_leaves(true)
                .iter()
                .flat_map(|l| l.shorts.iter().copied())
                .collect();
            let mb = flags.iter().copied().find(|c| !c.is_ascii());
            let free = ['q', 'z', 'j', 'x'].into_iter().find(|c| !declared.contains(c));
            let word = case.lay.items.iter().find_map(|i| match &i.kind {
                LKind::Word(b)
                    if !b.starts_with(b"-")
                        && std::str::from_utf8(b).is_ok()
                        && argv.iter().filter(|a| a == &b).count() == 1
                        && delivered.iter().filter(|a| a == &b).count() == 1 =>
                {
                    Some(b.clone())
                }
                _ => None,
            });
            if let (Some(m), Some(f), Some(w)) = (mb, free, word) {
                let new = format!("-{}{}{}", m, f, String::from_utf8_lossy(&w)).into_bytes();
                for it in argv.iter_mut().chain(delivered.iter_mut()) {
                    if *it == w {
                        *it = new.clone();
                    }
                }
                ctx.class("cluster-looking-word");
            }
        }
        let out = run(&parser, &argv);
        ctx.eval(1);
        let v = match &out {
            Outcome::Value(v) => v.clone(),
            Outcome::Panic { at, msg } => {
                return Verdict::fail(format!("panic@{}", at), msg.clone())
            }
            _ => {
                ctx.class("generated-sentence-not-accepted");
                return Verdict::Skip("sentence not accepted");
            }
        };
        ctx.class("accepted");
        // (a) linearity
        let mut leaves = Vec::new();
        v.leaves(&mut leaves);
        if !multiset_eq(&leaves, &delivered) {
            return Verdict::fail(
                "tokens-dropped-or-duplicated",
                format!(
                    "{:?} accepted as {}; tokens written {:?}, tokens in the result {:?}",
                    show_argv(&argv),
                    v,
                    delivered.iter().map(|x| show_bytes(x)).collect::<Vec<_>>(),
                    leaves.iter().map(|x| show_bytes(x)).collect::<Vec<_>>()
                ),
            );
        }
        if (case.depth >= 2 || case.has_group) && argv.len() >= 4 {
            ctx.nontrivial(fnv_str(&format!("{:?}{:?}", case.level, argv)));
        }
        if case.depth >= 2 {
            ctx.class("inside-subcommand");
        }
        if case.has_group {
            ctx.class("has-adjacent-block");
        }

        // (b) foreign items
        let dd = argv.iter().position(|a| a.as_slice() == b"--");
        let left_end = dd.unwrap_or(argv.len());
        let surplus_ok = match case.inner_slots {
            Some(n) => n == case.inner_words,
            None => false,
        };
        let mut probes: Vec<(&'static str, Vec<Vec<u8>>)> = Vec::new();
        for p in 0..=argv.len() {
            if p <= left_end {
                for (kind, item) in [("unknown-long", &b"--zzz-unknown"[..]), ("unknown-short", &b"-Z"[..])] {
                    let mut a = argv.clone();
                    a.insert(p, item.to_vec());
                    probes.push((kind, a));
                }
            }
            let after_name = p > 0 && owns[p - 1];
            if surplus_ok && !after_name {
                let mut a = argv.clone();
                a.insert(p, b"surplus".to_vec());
                probes.push(("surplus-word", a));
            }
        }
        // second copy of a single-use option
        for (ix, it) in case.lay.items.iter().enumerate() {
            let _ = ix;
            if let LKind::Occ(o) = &it.kind {
                if case.repeatable.contains(&o.leaf) {
                    continue;
                }
                // the items this occurrence was rendered to
                let idx: Vec<usize> = src
                    .iter()
                    .enumerate()
                    .filter(|(_, s)| **s == it.uid)
                    .map(|(i, _)| i)
                    .collect();
                if idx.is_empty() {
                    continue;
                }
                // clustered occurrences share an item with others: skip them
                let first = idx[0];
                let alone = match &o.alias {
                    Alias::Short(c) => {
                        let single = format!("-{}", c).into_bytes();
                        argv[first] == single
                            || argv[first].starts_with(&[single.clone(), b"=".to_vec()].concat())
                            || (o.value.is_some() && argv[first].starts_with(&single) && idx.len() == 1 && !owns[first] && {
                                // glued value: make sure no other letter precedes
                                true
                            })
                    }
                    Alias::Long(_) => true,
                };
                if !alone || src.iter().filter(|s| **s == it.uid).count() != idx.len() {
                    continue;
                }
                let copy: Vec<Vec<u8>> = idx.iter().map(|i| argv[*i].clone()).collect();
                if !copy[0].starts_with(b"-") {
                    continue;
                }
                for p in 0..=left_end {
                    if p > 0 && owns[p - 1] {
                        continue;
                    }
                    let mut a = argv.clone();
                    for (k, c) in copy.iter().enumerate() {
                        a.insert(p + k, c.clone());
                    }
                    probes.push(("second-copy", a));
                }
                // `=v` on a flag
                if o.value.is_none() && idx.len() == 1 {
                    // a cluster of two flags with a value attached: `-vq=x`
                    let item = &argv[first];
                    if item.len() == 2 && item[0] == b'-' && item[1].is_ascii_alphanumeric() {
                        let (flags, _) = case.level.visible_shorts();
                        if let Some(c2) = flags
                            .iter()
                            .find(|c| c.is_ascii() && **c as u8 != item[1])
                        {
                            let mut a = argv.clone();
                            a[first] = format!("-{}{}=x", item[1] as char, c2).into_bytes();
                            probes.push(("value-on-flag", a));
                        }
                    }
                    // a plain value, and values that look like something else
                    for stray in [&b"=v"[..], &b"=--"[..], &b"="[..], &b"=-x"[..]] {
                        let mut a = argv.clone();
                        a[first].extend_from_slice(stray);
                        probes.push(("value-on-flag", a));
                    }
                }
            }
        }
        // one member of a defaulted group that is otherwise absent: the group cannot be completed,
        // so the member is claimed by nobody
        for g in &case.groups {
            let present = case.lay.items.iter().any(|i| match &i.kind {
                LKind::Occ(o) => g.iter().any(|l| l.id == o.leaf),
                _ => false,
            });
            if present {
                continue;
            }
            let l = &g[argv.len() % g.len()];
            let mut item = l.first_name().into_bytes();
            let mut extra: Vec<Vec<u8>> = Vec::new();
            if let NamedKind::Arg { ty, .. } = &l.kind {
                if ty.is_num() {
                    item.extend_from_slice(b"=7");
                } else {
                    extra.push(b"pv".to_vec());
                }
            }
            let mut a = vec![item];
            a.extend(extra);
            a.extend(argv.iter().cloned());
            probes.push(("partial-defaulted-group", a));
            ctx.class("partial-group-probe");
        }
        for (kind, a) in probes {
            let o = run(&parser, &a);
            ctx.eval(1);
            match o {
                Outcome::Stderr(t) if !t.trim().is_empty() => {}
                Outcome::Panic { at, msg } => {
                    return Verdict::fail(
                        format!("panic@{}", at),
                        format!("{:?}: {}", show_argv(&a), msg),
                    )
                }
                other => {
                    return Verdict::fail(
                        format!("foreign-item-not-rejected/{}/{}", kind, other.class()),
                        format!(
                            "{:?} is accepted as {}; with a foreign item ({}) {:?} gives {}",
                            show_argv(&argv),
                            v,
                            kind,
                            show_argv(&a),
                            other.short()
                        ),
                    )
                }
            }
        }
        Verdict::Pass
    }
    fn describe(&self, bytes: &[u8]) -> Value {
        let case = decode(bytes);
        let mut st = SpellStats::default();
        let (argv, _, _) = render_full(&case.lay, &case.plan, &case.opts, &mut st);
        json!({
            "definition": show_level(&case.level),
            "argv": show_argv(&argv),
            "tokens_written": case.delivered.iter().map(|x| show_bytes(x)).collect::<Vec<_>>(),
            "probes": "unknown --zzz-unknown/-Z at every position left of --, surplus word, second copy of single-use options, =v on flags",
        })
    }
}
