//! C09 — `--` ends option processing; strict positionals honour it.

use serde_json::{json, Value};

use crate::build::build_level;
use crate::engine::{Ctx, Prop, Verdict};
use crate::gen::*;
use crate::model::{model, MOut};
use crate::outcome::{guarded, run, show_argv, show_bytes, Outcome};
use crate::spec::*;
use crate::un::{fnv_str, Un};
use crate::value::V;

pub struct C09;

pub struct Case {
    pub root: Level,
    /// index path to the level that owns the positionals: number of parent fields before the cmd
    pub wrapped: bool,
    pub argv: Vec<Vec<u8>>,
    /// index of the first `--` in argv, if any
    pub dd: Option<usize>,
    pub canonical: bool,
    pub n_strictness: usize,
}

fn gen_pos_any(u: &mut Un, names: &mut Names) -> Node {
    let ty = *u.pick(&[Ty::Str, Ty::Os, Ty::Path]);
    let strict = *u.pick(&[
        Strictness::Unrestricted,
        Strictness::Strict,
        Strictness::NonStrict,
    ]);
    let p = Node::Pos(PosSpec {
        id: names.id(),
        metavar: metavar_for(ty, u),
        ty,
        help: None,
        strict,
    });
    match u.weighted(&[3, 2, 2, 1]) {
        0 => p,
        1 => Node::Optional {
            n: p.b(),
            catch: false,
        },
        2 => Node::Many {
            n: p.b(),
            catch: false,
        },
        _ => Node::Some {
            n: p.b(),
            catch: false,
            msg: "need a word".into(),
        },
    }
}

fn pos_of(n: &Node) -> Option<&PosSpec> {
    match n {
        Node::Pos(p) => Some(p),
        Node::Optional { n, .. } | Node::Many { n, .. } | Node::Some { n, .. } => pos_of(n),
        _ => None,
    }
}

pub fn decode(bytes: &[u8]) -> Case {
    let mut u = Un::new(bytes);
    let mut names = Names::new();
    let cfg = ConvCfg {
        typed: true,
        ..ConvCfg::default()
    };
    // the level under test
    let n_named = u.below(5);
    let mut fields: Vec<Node> = (0..n_named)
        .map(|_| gen_conv_field(&mut u, &mut names, &cfg))
        .collect();
    let n_pos = u.below(4);
    for _ in 0..n_pos {
        fields.push(gen_pos_any(&mut u, &mut names));
    }
    if fields.is_empty() {
        fields.push(Node::Pure("nothing".into()));
    }
    let inner = Level::simple(Node::Seq(fields));
    let strictness: Vec<Strictness> = match &inner.body {
        Node::Seq(xs) => xs.iter().filter_map(|x| pos_of(x).map(|p| p.strict)).collect(),
        _ => Vec::new(),
    };
    // canonical: (unrestricted | non_strict)* strict*
    let first_strict = strictness.iter().position(|s| *s == Strictness::Strict);
    let canonical = match first_strict {
        None => true,
        Some(p) => strictness[p..].iter().all(|s| *s == Strictness::Strict),
    };
    let n_strictness = strictness
        .iter()
        .filter(|s| **s != Strictness::Unrestricted)
        .count();

    // the sentence of the inner level (arity valid), then the words are split around `--`
    let (sent, _) = gen_conv_sentence(&mut u, &mut names, &inner);
    let mut stats = RenderStats::default();
    let occs = stable_shuffle(&mut u, &sent.named);
    let mut blocks = named_blocks(&mut u, &occs, &RenderCfg::default(), &mut stats);
    // sometimes a named block is left out: the line may then be incomplete, and the error
    // message is looked at as well
    if !blocks.is_empty() && u.chance(30) {
        let at = u.below(blocks.len());
        blocks.remove(at);
    }
    // words may end up in another positional's slot: keep them valid for every target type
    let mut words: Vec<Vec<u8>> = sent
        .words
        .iter()
        .map(|w| w.iter().copied().filter(u8::is_ascii).collect())
        .collect();
    // sometimes one word more or less
    match u.weighted(&[6, 1, 1]) {
        1 => words.push(format!("x{}", names.val()).into_bytes()),
        2 => {
            words.pop();
        }
        _ => {}
    }
    let use_dd = u.chance(200);
    let split = if use_dd {
        u.below(words.len() + 1)
    } else {
        words.len()
    };

    // wrapping parent with a command
    let wrapped = u.chance(70);
    let (root, cmd_name, parent_line) = if wrapped {
        let nm = names.cmd(&mut u);
        let pn = u.below(3);
        let mut pf: Vec<Node> = (0..pn)
            .map(|_| gen_conv_field(&mut u, &mut names, &cfg))
            .collect();
        pf.push(Node::Alt(vec![Node::Cmd(Box::new(CmdSpec {
            name: nm.clone(),
            shorts: Vec::new(),
            longs: Vec::new(),
            help: None,
            adjacent: false,
            level: inner.clone(),
        }))]));
        let parent = Level::simple(Node::Seq(pf.clone()));
        // parent's own named items, written before the command name
        let named_only = Level::simple(Node::Seq(if pn == 0 {
            vec![Node::Pure("p".into())]
        } else {
            pf[..pn].to_vec()
        }));
        let (ps, _) = gen_conv_sentence(&mut u, &mut names, &named_only);
        let pb = named_blocks(&mut u, &ps.named, &RenderCfg::default(), &mut stats);
        let mut line: Vec<Vec<u8>> = Vec::new();
        for b in pb {
            line.extend(b.items);
        }
        (parent, Some(nm), line)
    } else {
        (inner.clone(), None, Vec::new())
    };

    let mut nasty: Vec<Vec<u8>> = vec![
        b"-x".to_vec(),
        b"--y".to_vec(),
        b"--".to_vec(),
        b"--help".to_vec(),
        b"-h".to_vec(),
        b"-".to_vec(),
        b"".to_vec(),
        b"--k=v".to_vec(),
        b"-vvv".to_vec(),
        // the words bpaf's own completion machinery is started with: right of `--` they are
        // words like any other
        b"--bpaf-complete-rev=7".to_vec(),
        b"--bpaf-complete-rev=zsh".to_vec(),
    ];
    if let Some(c) = &cmd_name {
        nasty.push(c.as_bytes().to_vec());
        // a typo of the command name
        let mut t: Vec<char> = c.chars().collect();
        if t.len() >= 3 {
            t.swap(1, 2);
            nasty.push(t.into_iter().collect::<String>().into_bytes());
        }
    }
    for l in root.body.named_leaves(true) {
        nasty.push(l.first_name().into_bytes());
        // a typo of a declared long name: what an error message would offer a correction for
        if let Some(long) = l.longs.first() {
            let n = long.chars().count();
            if n >= 4 {
                let cut: String = long.chars().take(n - 1).collect();
                nasty.push(format!("--{}", cut).into_bytes());
            }
        }
        if l.is_arg() {
            nasty.push(format!("{}=zz", l.first_name()).into_bytes());
        }
    }

    let mut argv = parent_line;
    let early_dd = cmd_name.is_some() && u.chance(40);
    if early_dd {
        // the separator before the command name: the name is then plain data
        argv.push(b"--".to_vec());
    }
    if let Some(c) = &cmd_name {
        argv.push(c.as_bytes().to_vec());
    }
    // left side: blocks interleaved with left words
    let (mut bi, mut wi) = (0, 0);
    while bi < blocks.len() || wi < split {
        let take_block = if bi >= blocks.len() {
            false
        } else if wi >= split {
            true
        } else {
            u.bool()
        };
        if take_block {
            argv.extend(blocks[bi].items.iter().cloned());
            bi += 1;
        } else {
            argv.push(words[wi].clone());
            wi += 1;
        }
    }
    let mut dd = None;
    if early_dd {
        dd = argv.iter().position(|a| a.as_slice() == b"--");
        let rest: Vec<Vec<u8>> = words[split..].to_vec();
        argv.extend(rest);
    } else if use_dd {
        dd = Some(argv.len());
        argv.push(b"--".to_vec());
        let mut used: Vec<Vec<u8>> = Vec::new();
        for w in &words[split..] {
            if u.chance(150) {
                let n = u.pick(&nasty).clone();
                if !used.contains(&n) {
                    used.push(n.clone());
                    argv.push(n);
                    continue;
                }
            }
            argv.push(w.clone());
        }
    }
    Case {
        root,
        wrapped,
        argv,
        dd,
        canonical,
        n_strictness,
    }
}

/// the value of the level under test
fn inner_value(case: &Case, v: &V) -> Option<Vec<V>> {
    let top = match v {
        V::Tup(xs) => xs,
        _ => return None,
    };
    if !case.wrapped {
        return Some(top.clone());
    }
    match top.last()? {
        V::Alt(_, b) => match &**b {
            V::Cmd(_, inner) => match &**inner {
                V::Tup(xs) => Some(xs.clone()),
                _ => None,
            },
            _ => None,
        },
        _ => None,
    }
}

fn inner_level(case: &Case) -> &Level {
    if case.wrapped {
        &case.root.body.commands(false)[0].level
    } else {
        &case.root
    }
}


// ---------------------------------------------------------------------------------------------
// second family: the rest of the line collected by `any("REST", Some).many()` (the usual way to
// pass arguments on to another program): everything right of the first `--` arrives verbatim
// ---------------------------------------------------------------------------------------------

pub struct RestCase {
    pub level: Level,
    pub argv: Vec<Vec<u8>>,
    pub right: Vec<Vec<u8>>,
}

pub fn decode_rest(bytes: &[u8]) -> RestCase {
    let mut u = Un::new(bytes);
    let mut names = Names::new();
    let mut fields: Vec<Node> = Vec::new();
    let mut argv: Vec<Vec<u8>> = Vec::new();
    for _ in 0..u.below(3) {
        let n = gen_named_leaf(&mut u, &mut names, NamedKind::Switch);
        if u.bool() {
            argv.push(n.first_name().into_bytes());
        }
        fields.push(Node::Named(n));
    }
    if u.chance(100) {
        // a non_strict positional that finds nothing on its side of `--` and falls back
        // (optional / fallback / fallback_with), in front of the positional that collects the
        // rest: looking at the first right-hand item must not use it up
        let left = Node::Pos(PosSpec {
            id: names.id(),
            metavar: "LEFT".into(),
            ty: Ty::Os,
            help: None,
            strict: Strictness::NonStrict,
        });
        fields.push(match u.below(3) {
            0 => Node::Optional { n: left.b(), catch: false },
            1 => Node::Fallback { n: left.b(), value: "dflt".into(), shown: false },
            _ => Node::FallbackWith { n: left.b(), ok: true, value: "dflt-with".into() },
        });
        fields.push(Node::Many {
            n: Node::Pos(PosSpec {
                id: names.id(),
                metavar: "REST".into(),
                ty: Ty::Os,
                help: None,
                strict: if u.bool() { Strictness::Strict } else { Strictness::Unrestricted },
            })
            .b(),
            catch: false,
        });
    } else {
        fields.push(Node::Many {
            n: Node::Any(AnySpec {
                metavar: "REST".into(),
                prefixes: vec![String::new()],
                anywhere: false,
                help: None,
            })
            .b(),
            catch: false,
        });
    }
    let level = Level::simple(Node::Seq(fields));
    argv.push(b"--".to_vec());
    let pool: &[&[u8]] = &[
        b"--", b"-x", b"--y", b"word", b"--help", b"-h", b"", b"-", b"--k=v", b"a b",
        b"--bpaf-complete-rev=7", b"--bpaf-complete-rev=zsh",
    ];
    let n = u.below(5);
    let mut right = Vec::new();
    for _ in 0..n {
        right.push((*u.pick(pool)).to_vec());
    }
    argv.extend(right.iter().cloned());
    RestCase { level, argv, right }
}

fn check_rest(bytes: &[u8], ctx: &mut Ctx) -> Verdict {
    let case = decode_rest(bytes);
    let parser = match guarded(|| {
        let p = build_level(&case.level);
        p.check_invariants(false);
        p
    }) {
        Ok(p) => p,
        Err(_) => return Verdict::Skip("definition rejected by check_invariants"),
    };
    let out = run(&parser, &case.argv);
    ctx.eval(1);
    ctx.class(if case.level.body.count_kind(true, &|n| matches!(n, Node::Any(_))) > 0 {
        "family:rest-collected-by-any"
    } else {
        "family:rest-behind-a-defaulted-non-strict-positional"
    });
    if case.right.iter().any(|w| w.starts_with(b"-")) {
        ctx.nontrivial(fnv_str(&format!("{:?}{:?}", case.level, case.argv)));
    }
    match &out {
        Outcome::Panic { at, msg } => Verdict::fail(format!("panic@{}", at), msg.clone()),
        Outcome::Value(v) => {
            let mut leaves = Vec::new();
            v.leaves(&mut leaves);
            if leaves == case.right {
                Verdict::Pass
            } else {
                Verdict::fail(
                    "rest-after-dashdash-not-delivered-verbatim",
                    format!("{:?} -> {}", show_argv(&case.argv), v),
                )
            }
        }
        other => Verdict::fail(
            format!("rest-after-dashdash-interpreted/{}", other.class()),
            format!("{:?} -> {}", show_argv(&case.argv), other.short()),
        ),
    }
}

impl Prop for C09 {
    fn id(&self) -> &'static str {
        "C09"
    }
    fn cases(&self) -> (u64, u64) {
        (400_000, 2_000_000)
    }
    fn rule(&self) -> &'static str {
        "choice bytes -> level with 0-4 named fields and 0-3 positionals of every strictness \
         (unrestricted/strict/non_strict) x arity (required/optional/many/some) in any order, \
         optionally inside a subcommand -> arity-valid sentence whose words are split around `--` at \
         a generated position, one word more or less sometimes; words right of `--` are replaced by \
         dash-looking items (-x, --y, a second --, --help, -h, declared option names, name=value, \
         the command name, empty string). Oracles: (i) metamorphic - replacing everything right of \
         the first `--` by fresh plain tokens keeps the outcome class and maps values \
         token-for-token; (ii) validity on every accepted line - strict positionals got only words \
         from the right, non_strict only from the left, the words are delivered exactly once in \
         order and the separator never is; (iii) for canonical shapes ((unrestricted|non_strict)* \
         strict*) the reference model predicts accept/reject and the value. Non-trivial: `--` \
         present, a dash-looking word right of it and a positional of non-default strictness; \
         distinct by hash of (definition, argv)."
    }
    fn check(&self, bytes: &[u8], ctx: &mut Ctx) -> Verdict {
        // one case in sixteen belongs to the second family
        if bytes.first().map_or(false, |b| b % 16 == 15) {
            return check_rest(&bytes[1..], ctx);
        }
        // and one in thirty-two is a group of (mostly strict) positionals right of `--`, shared
        // with C19: pairs of words, dash-looking ones included
        if bytes.first().map_or(false, |b| b % 32 == 14) {
            return crate::props::c19::check_pairs(&bytes[1..], ctx);
        }
        let case = decode(bytes);
        let parser = match guarded(|| {
            let p = build_level(&case.root);
            p.check_invariants(false);
            p
        }) {
            Ok(p) => p,
            Err((at, msg)) => {
                return Verdict::fail(
                    "generator/invariants",
                    format!("check_invariants panicked at {}: {}", at, msg),
                )
            }
        };
        let out = run(&parser, &case.argv);
        ctx.eval(1);
        if let Outcome::Panic { at, msg } = &out {
            return Verdict::fail(format!("panic@{}", at), msg.clone());
        }
        ctx.class(&format!("outcome:{}", out.class()));
        let right: Vec<Vec<u8>> = match case.dd {
            Some(p) => case.argv[p + 1..].to_vec(),
            None => Vec::new(),
        };
        let dashy_right = right.iter().any(|w| w.starts_with(b"-") || w.is_empty());
        if case.dd.is_some() {
            ctx.class("has-dashdash");
        }
        if case.canonical {
            ctx.class("canonical-shape");
        }
        if case.dd.is_some() && dashy_right && case.n_strictness > 0 {
            ctx.nontrivial(fnv_str(&format!("{:?}{:?}", case.root, case.argv)));
        }

        // nothing right of `--` may turn the outcome into help or version output
        if let (Some(_), Outcome::Stdout { text, .. }) = (case.dd, &out) {
            return Verdict::fail(
                "item-after-dashdash-treated-as-request",
                format!("{:?} -> stdout {:?}", show_argv(&case.argv), text),
            );
        }

        // an error message never presents an item from the right of `--` as a mistyped flag,
        // argument or command
        if let (Some(p), Outcome::Stderr(t)) = (case.dd, &out) {
            if t.contains("did you mean") {
                if let Some(tok) = t.split('`').nth(1) {
                    let on_right = right.iter().any(|w| w.as_slice() == tok.as_bytes());
                    let on_left = case.argv[..p].iter().any(|w| w.as_slice() == tok.as_bytes());
                    if on_right && !on_left && !tok.is_empty() {
                        return Verdict::fail(
                            "item-after-dashdash-treated-as-mistyped-name",
                            format!("{:?} -> stderr {:?}", show_argv(&case.argv), t),
                        );
                    }
                }
            }
            ctx.class("rejected-with-dashdash");
        }

        // (i) metamorphic replacement of the right side
        if let Some(p) = case.dd {
            let mut argv2 = case.argv[..=p].to_vec();
            let fresh: Vec<Vec<u8>> = (0..right.len())
                .map(|i| format!("fresh{}", i).into_bytes())
                .collect();
            argv2.extend(fresh.iter().cloned());
            let out2 = run(&parser, &argv2);
            ctx.eval(1);
            let same = match (&out, &out2) {
                (Outcome::Value(a), Outcome::Value(b)) => {
                    // map fresh tokens back
                    fn subst(v: &V, fresh: &[Vec<u8>], orig: &[Vec<u8>]) -> V {
                        match v {
                            V::Str(s) => match fresh.iter().position(|f| f == s.as_bytes()) {
                                Some(i) => match std::str::from_utf8(&orig[i]) {
                                    Ok(o) => V::Str(o.to_owned()),
                                    Err(_) => V::Os(orig[i].clone()),
                                },
                                None => v.clone(),
                            },
                            V::Os(b) => match fresh.iter().position(|f| f == b) {
                                Some(i) => V::Os(orig[i].clone()),
                                None => v.clone(),
                            },
                            V::Opt(Some(x)) => V::some(subst(x, fresh, orig)),
                            V::List(xs) => V::List(xs.iter().map(|x| subst(x, fresh, orig)).collect()),
                            V::Tup(xs) => V::Tup(xs.iter().map(|x| subst(x, fresh, orig)).collect()),
                            V::Alt(i, x) => V::Alt(*i, Box::new(subst(x, fresh, orig))),
                            V::Cmd(n, x) => V::Cmd(n.clone(), Box::new(subst(x, fresh, orig))),
                            other => other.clone(),
                        }
                    }
                    &subst(b, &fresh, &right) == a
                }
                (Outcome::Stderr(_), Outcome::Stderr(_)) => true,
                _ => false,
            };
            if !same {
                return Verdict::fail(
                    format!("right-of-dashdash-interpreted/{}->{}", out2.class(), out.class()),
                    format!(
                        "items right of `--` must be plain data:\n  {:?} -> {}\n  {:?} -> {}",
                        show_argv(&argv2),
                        out2.short(),
                        show_argv(&case.argv),
                        out.short()
                    ),
                );
            }
        }

        // (ii) validity of accepted lines
        if let Outcome::Value(v) = &out {
            let inner = inner_level(&case);
            let fields = match &inner.body {
                Node::Seq(xs) => xs,
                _ => return Verdict::Pass,
            };
            if let Some(vals) = inner_value(&case, v) {
                let left_end = case.dd.unwrap_or(case.argv.len());
                let mut delivered: Vec<Vec<u8>> = Vec::new();
                for (f, val) in fields.iter().zip(vals.iter()) {
                    if let Some(p) = pos_of(f) {
                        let mut leaves = Vec::new();
                        val.leaves(&mut leaves);
                        for l in &leaves {
                            let on_right = right.contains(l);
                            let on_left = case.argv[..left_end].contains(l);
                            match p.strict {
                                Strictness::Strict if !on_right => {
                                    return Verdict::fail(
                                        "strict-positional-took-left-word",
                                        format!(
                                            "{:?}: strict {} = {:?}",
                                            show_argv(&case.argv),
                                            p.metavar,
                                            show_bytes(l)
                                        ),
                                    )
                                }
                                Strictness::NonStrict if !on_left || (on_right && !on_left) => {
                                    return Verdict::fail(
                                        "non-strict-positional-took-right-word",
                                        format!(
                                            "{:?}: non_strict {} = {:?}",
                                            show_argv(&case.argv),
                                            p.metavar,
                                            show_bytes(l)
                                        ),
                                    )
                                }
                                _ => {}
                            }
                        }
                        delivered.extend(leaves);
                    }
                }
                // every right word delivered once, in order, and after all left positional words
                let tail: Vec<Vec<u8>> = delivered
                    .iter()
                    .rev()
                    .take(right.len())
                    .rev()
                    .cloned()
                    .collect();
                if tail != right {
                    return Verdict::fail(
                        "words-after-dashdash-not-delivered-verbatim",
                        format!(
                            "{:?} accepted as {} but the words right of `--` are {:?} and the positional values end with {:?}",
                            show_argv(&case.argv),
                            v,
                            show_argv(&right),
                            show_argv(&tail)
                        ),
                    );
                }
            }
        }

        // (iii) model for canonical shapes
        if case.canonical {
            let m = model(&case.root, &case.argv);
            match (&m, &out) {
                (MOut::Outside(_), _) => {}
                (MOut::Value(a), Outcome::Value(b)) if a == b => {}
                (MOut::Reject(_), Outcome::Stderr(_)) => {}
                (MOut::Help { .. }, Outcome::Stdout { .. }) => {}
                (MOut::Value(a), o) => {
                    return Verdict::fail(
                        "canonical/sentence-rejected-or-wrong-value",
                        format!(
                            "{:?} denotes {} but bpaf returned {}",
                            show_argv(&case.argv),
                            a,
                            o.short()
                        ),
                    )
                }
                (m, o) => {
                    return Verdict::fail(
                        "canonical/non-sentence-not-rejected",
                        format!(
                            "{:?}: model {:?}, bpaf {}",
                            show_argv(&case.argv),
                            m,
                            o.short()
                        ),
                    )
                }
            }
            ctx.class("model-checked");
        }
        Verdict::Pass
    }
    fn describe(&self, bytes: &[u8]) -> Value {
        if bytes.first().map_or(false, |b| b % 32 == 14) {
            let c = crate::props::c19::decode_pairs(&bytes[1..]);
            return json!({
                "family": "adjacent pairs of positionals right of --",
                "definition": show_level(&c.level),
                "argv": show_argv(&c.argv),
            });
        }
        if bytes.first().map_or(false, |b| b % 16 == 15) {
            let c = decode_rest(&bytes[1..]);
            return json!({
                "family": "rest of the line collected by any(..).many()",
                "definition": show_level(&c.level),
                "argv": show_argv(&c.argv),
            });
        }
        let case = decode(bytes);
        json!({
            "definition": show_level(&case.root),
            "argv": show_argv(&case.argv),
            "canonical_shape": case.canonical,
        })
    }
}
