//! C15 — completion scripts for real shells are well-formed and inert.

use std::fs;
use std::path::PathBuf;
use std::process::Command;

use serde_json::{json, Value};

use crate::broad::*;
use crate::build::build_level;
use crate::engine::{Ctx, Prop, Regression, Verdict};
use crate::gen::*;
use crate::lexers::sh::{lex, quote, LexError};
use crate::outcome::{guarded, run_cfg, show_argv, Outcome, RunCfg};
use crate::spec::*;
use crate::un::{fnv_str, Un};

pub struct C15;

pub const HOSTILE: &[&str] = &[
    "it's", "a b", "$(touch CANARY)", "`touch CANARY`", ";touch CANARY;", "&& touch CANARY", "*",
    "?x", "\"dq\"", "\\", "ünï", "'", "''", "a'b'c", "$HOME", ">CANARY", "|x", "#c", "!e", "{a,b}",
    "~", "plain", "x=y", "(paren)", "a;b", "$((1+1))", "'; touch CANARY; '", "-- x", "\\'",
];

pub struct Case {
    pub level: Level,
    pub prefix: Vec<Vec<u8>>,
    pub typed: String,
    pub rev: usize,
    pub named: bool,
    pub exec: bool,
}

fn hostile(u: &mut Un) -> String {
    (*u.pick(HOSTILE)).to_owned()
}

/// help texts and group titles: a hostile first line, sometimes followed by more lines - a soft
/// break, a preserved break (newline + indent), a second paragraph. Completion output is line
/// based, so only the first line may ever show up there.
fn hostile_help(u: &mut Un) -> String {
    let mut h = hostile(u);
    if u.chance(90) {
        let tail = hostile(u);
        match u.below(4) {
            0 => h.push_str(&format!("\n {}", tail)),
            1 => h.push_str(&format!("\n\n{}", tail)),
            2 => h.push_str(&format!("\n    {}\n    {}", tail, tail)),
            _ => h.push_str(&format!("\n{}", tail)),
        }
    }
    h
}

/// completers, groups, masks and help texts with shell metacharacters
fn add_hostile(n: &mut Node, u: &mut Un) {
    match n {
        Node::Named(x) => {
            if u.chance(140) {
                let mut h = hostile_help(u);
                if u.chance(40) && !h.contains('\n') {
                    // a long first line
                    while h.chars().count() < 130 {
                        h.push_str(" and more words");
                    }
                }
                x.help = Some(DocSpec::plain(h));
            }
            if let NamedKind::Arg { ty: Ty::Str, .. } = x.kind {
                if u.chance(150) {
                    let id = x.id;
                    let inner = std::mem::replace(n, Node::Pure(String::new()));
                    *n = hostile_completer(inner, id, u);
                }
            }
        }
        Node::Pos(p) => {
            if u.chance(100) {
                p.help = Some(DocSpec::plain(hostile_help(u)));
            }
            if p.ty == Ty::Str && u.chance(150) {
                let id = p.id;
                let inner = std::mem::replace(n, Node::Pure(String::new()));
                *n = hostile_completer(inner, id, u);
            }
        }
        Node::Cmd(c) => {
            if u.chance(100) {
                c.help = Some(DocSpec::plain(hostile_help(u)));
            }
            add_hostile(&mut c.level.body, u);
        }
        Node::GroupHelp(n, d) => {
            if u.chance(128) {
                *d = DocSpec::plain(hostile_help(u));
            }
            add_hostile(n, u);
        }
        Node::Pure(_) | Node::Fail(_) | Node::Any(_) => {}
        Node::Seq(xs) | Node::Alt(xs) | Node::Adjacent(xs) => {
            for x in xs {
                add_hostile(x, u);
            }
        }
        Node::Optional { n, .. }
        | Node::Many { n, .. }
        | Node::Some { n, .. }
        | Node::Collect { n, .. }
        | Node::Count(n)
        | Node::Last(n)
        | Node::Fallback { n, .. }
        | Node::FallbackWith { n, .. }
        | Node::Guard { n, .. }
        | Node::Parse { n, .. }
        | Node::Map(n)
        | Node::Hide(n)
        | Node::HideUsage(n)
        | Node::CustomUsage(n, _)
        | Node::WithGroupHelp(n, _)
        | Node::Complete { n, .. }
        | Node::CompleteShell(n, _)
        | Node::Boxed(n) => add_hostile(n, u),
    }
}

fn hostile_completer(inner: Node, id: usize, u: &mut Un) -> Node {
    if u.chance(90) {
        let mask = if u.bool() { Some(hostile(u)) } else { None };
        let s = match u.below(5) {
            0 => ShellSpec::File(mask),
            1 => ShellSpec::Dir(mask),
            2 => ShellSpec::File(Some("*.toml".into())),
            3 => ShellSpec::Raw {
                bash: "_bash_raw".into(),
                zsh: "_zsh_raw".into(),
                fish: "fish_raw".into(),
                elvish: "elvish_raw".into(),
            },
            _ => ShellSpec::Nothing,
        };
        return Node::CompleteShell(inner.b(), s);
    }
    let k = 1 + u.below(3);
    let mut cands = Vec::new();
    for i in 0..k {
        let c = format!("{}{}{}", hostile(u), id, i);
        let d = if u.bool() { Some(hostile(u)) } else { None };
        cands.push((c, d));
    }
    Node::Complete {
        n: inner.b(),
        cands,
        group: if u.chance(110) { Some(hostile(u)) } else { None },
    }
}

pub fn decode(bytes: &[u8]) -> Case {
    let mut u = Un::new(bytes);
    let mut names = Names::new();
    // names longer than the 24 columns the renderers pad candidates to
    names.mid_names = true;
    let mut level = gen_broad_level(&mut u, &mut names, &crate::props::c14::cfg(), 1);
    add_hostile(&mut level.body, &mut u);
    let sent = SentGen {
        names: &mut names,
        mode: ValMode::Tokens,
        in_group: false,
    }
    .level(&mut u, &level);
    let prep = prepare(&sent);
    let lay = layout(&mut u, &prep, true, false);
    let opts = SpellOpts {
        clusters: false,
        no_glued_non_utf8: true,
        no_hidden_in_cluster: crate::props::c02::hidden_leaves(&level),
    };
    let mut ex = 0;
    let plan = plan_spelling(&mut u, &lay, &opts, &mut ex);
    let mut st = SpellStats::default();
    let (mut sentence, _) = render(&lay, &plan, &opts, &mut st);
    if let Some(p) = sentence.iter().position(|a| a.as_slice() == b"--") {
        sentence.truncate(p);
    }
    for it in sentence.iter_mut() {
        if std::str::from_utf8(it).is_err() {
            *it = crate::un::drop_invalid_utf8(it);
        }
    }
    let k = u.below(sentence.len() + 1);
    let mut prefix = sentence[..k].to_vec();
    // value position of an argument with a completer, often
    let with_comp: Vec<String> = {
        let mut v = Vec::new();
        level.body.walk(true, &mut |n| {
            if let Node::Complete { n, .. } | Node::CompleteShell(n, _) = n {
                if let Node::Named(x) = &**n {
                    v.push(x.first_name());
                }
            }
        });
        v
    };
    let typed = match u.below(8) {
        0 | 1 => String::new(),
        2 => "-".into(),
        3 => "--".into(),
        4 | 5 if !with_comp.is_empty() => {
            prefix.push(u.pick(&with_comp).clone().into_bytes());
            String::new()
        }
        6 => match u.below(6) {
            0 => "a\nb".into(),
            1 => "x\ty".into(),
            // `name=value` words for which nothing can be computed: the whole word is echoed
            2 => format!("-z={}", hostile(&mut u)),
            3 => format!("--zz-unknown={}", hostile(&mut u)),
            4 => {
                let flags: Vec<String> = level
                    .body
                    .named_leaves(true)
                    .iter()
                    .filter(|l| !l.is_arg())
                    .map(|l| l.first_name())
                    .collect();
                if flags.is_empty() {
                    format!("-y={}", hostile(&mut u))
                } else {
                    format!("{}={}", u.pick(&flags), hostile(&mut u))
                }
            }
            _ => hostile(&mut u),
        },
        _ => hostile(&mut u),
    };
    let rev = *u.pick(&[8usize, 7, 9, 1]);
    // fish and elvish speak a line protocol: a typed word with a tab or a line break cannot be
    // carried by it at all (and revision 0 cannot express it either)
    let typed = if rev == 9 || rev == 1 {
        typed.replace(['\n', '\t'], " ")
    } else {
        typed
    };
    Case {
        level,
        prefix,
        typed,
        rev,
        named: u.bool(),
        exec: u.chance(48),
    }
}

#[derive(Clone, Debug, PartialEq, Eq)]
pub struct Row {
    pub subst: String,
    pub pretty: String,
    pub group: String,
    pub help: String,
}

#[derive(Debug, Default)]
pub struct Rev0 {
    /// revision 0 printed the bare replacement only: help and pretty form are unknown
    pub bare_single: bool,
    pub rows: Vec<Row>,
    pub ops: Vec<String>,
    pub echo: Option<String>,
}

/// revision 0 output; rows whose help was wrapped over several lines are re-joined
pub fn parse_rev0(text: &str, full_lit: &str) -> Rev0 {
    let mut p = Rev0::default();
    if text == format!("{}\n", full_lit) {
        p.echo = Some(full_lit.to_owned());
        return p;
    }
    if !text.contains('\t') {
        if text.starts_with('\n') && text.len() > 1 {
            p.ops = text.lines().skip(1).filter(|l| !l.is_empty()).map(str::to_owned).collect();
        } else if let Some(t) = text.strip_suffix('\n') {
            p.echo = Some(t.to_owned());
        } else {
            p.bare_single = true;
            p.rows.push(Row {
                subst: text.to_owned(),
                pretty: text.to_owned(),
                group: String::new(),
                help: String::new(),
            });
        }
        return p;
    }
    // rows end at the first empty line that is followed only by op lines (no tabs)
    let lines: Vec<&str> = text.split('\n').collect();
    let mut i = 0;
    while i < lines.len() {
        let l = lines[i];
        let tabs = l.matches('\t').count();
        if tabs == 3 {
            let f: Vec<&str> = l.split('\t').collect();
            p.rows.push(Row {
                subst: f[0].into(),
                pretty: f[1].into(),
                group: f[2].into(),
                help: f[3].into(),
            });
        } else if l.is_empty() && lines[i + 1..].iter().all(|x| !x.contains('\t')) {
            p.ops = lines[i + 1..]
                .iter()
                .filter(|x| !x.is_empty())
                .map(|x| (*x).to_owned())
                .collect();
            break;
        } else if let Some(last) = p.rows.last_mut() {
            // continuation of a wrapped help text
            last.help.push('\n');
            last.help.push_str(l);
        }
        i += 1;
    }
    p
}

fn display(r: &Row) -> String {
    if !r.help.is_empty() && r.subst.is_empty() {
        format!("{}: {}", r.pretty, r.help)
    } else if !r.help.is_empty() {
        format!("{:24} -- {}", r.pretty, r.help)
    } else {
        r.pretty.clone()
    }
}

fn bashmask(m: &str) -> String {
    let i = m.strip_prefix("*.").unwrap_or(m);
    if i.starts_with('(') {
        format!("@{}", i)
    } else {
        i.to_owned()
    }
}

/// semantic content of a script: calls with their decoded arguments
#[derive(Clone, Debug, PartialEq, Eq)]
pub enum Call {
    /// COMPREPLY+=( words )
    Reply(Vec<String>),
    Filedir(Vec<String>),
    Compadd(Vec<String>),
    Files(Vec<String>),
    LocalDescr,
    Descr(Vec<String>),
    Raw(String),
}

fn shell_specs(level: &Level) -> Vec<ShellSpec> {
    let mut v = Vec::new();
    level.body.walk(true, &mut |n| {
        if let Node::CompleteShell(_, s) = n {
            v.push(s.clone());
        }
    });
    v
}

fn ops_of(level: &Level, lines: &[String]) -> Option<Vec<ShellSpec>> {
    let specs = shell_specs(level);
    let mut out = Vec::new();
    for l in lines {
        let s = specs
            .iter()
            .find(|s| format!("{:?}", crate::build::shell(s)) == *l)?;
        out.push(s.clone());
    }
    Some(out)
}

pub fn expected_bash(r: &Rev0, ops: &[ShellSpec]) -> Vec<Call> {
    let mut out = Vec::new();
    if let Some(e) = &r.echo {
        return vec![Call::Reply(vec![e.clone()])];
    }
    for o in ops {
        match o {
            ShellSpec::File(None) => out.push(Call::Filedir(vec![])),
            ShellSpec::File(Some(m)) => out.push(Call::Filedir(vec![bashmask(m)])),
            ShellSpec::Dir(None) => out.push(Call::Filedir(vec!["-d".into()])),
            ShellSpec::Dir(Some(m)) => out.push(Call::Filedir(vec!["-d".into(), bashmask(m)])),
            ShellSpec::Raw { bash, .. } => out.push(Call::Raw(bash.clone())),
            ShellSpec::Nothing => {}
        }
    }
    if r.rows.len() == 1 {
        let x = &r.rows[0];
        if x.subst.is_empty() {
            out.push(Call::Reply(vec![x.pretty.clone(), String::new()]));
        } else {
            out.push(Call::Reply(vec![x.subst.clone()]));
        }
        return out;
    }
    let mut prev = String::new();
    for x in &r.rows {
        if !x.group.is_empty() && x.group != prev {
            prev = x.group.clone();
            out.push(Call::Reply(vec![x.group.clone()]));
        }
        out.push(Call::Reply(vec![display(x)]));
    }
    out
}

pub fn expected_zsh(r: &Rev0, ops: &[ShellSpec]) -> Vec<Call> {
    let mut out = Vec::new();
    if let Some(e) = &r.echo {
        return vec![Call::Compadd(vec!["--".into(), e.clone()])];
    }
    for o in ops {
        match o {
            ShellSpec::File(None) => out.push(Call::Files(vec![])),
            ShellSpec::File(Some(m)) => out.push(Call::Files(vec!["-g".into(), m.clone()])),
            ShellSpec::Dir(None) => out.push(Call::Files(vec!["-/".into()])),
            ShellSpec::Dir(Some(m)) => {
                out.push(Call::Files(vec!["-/".into(), "-g".into(), m.clone()]))
            }
            ShellSpec::Raw { zsh, .. } => out.push(Call::Raw(zsh.clone())),
            ShellSpec::Nothing => {}
        }
    }
    if r.rows.len() == 1 {
        let x = &r.rows[0];
        if x.subst.is_empty() {
            out.push(Call::Compadd(vec!["--".into(), x.pretty.clone()]));
            out.push(Call::Compadd(vec![String::new()]));
        } else {
            out.push(Call::Compadd(vec!["--".into(), x.subst.clone()]));
        }
        return out;
    }
    if r.rows.is_empty() {
        return out;
    }
    out.push(Call::LocalDescr);
    for x in &r.rows {
        out.push(Call::Descr(vec![display(x)]));
        if x.group.is_empty() {
            out.push(Call::Compadd(
                ["-l", "-V", "nosort", "-d", "descr", "--", x.subst.as_str()]
                    .iter()
                    .map(|s| (*s).to_owned())
                    .collect(),
            ));
        } else {
            out.push(Call::Compadd(
                [
                    "-l",
                    "-d",
                    "descr",
                    "-V",
                    x.group.as_str(),
                    "-X",
                    x.group.as_str(),
                    "--",
                    x.subst.as_str(),
                ]
                .iter()
                .map(|s| (*s).to_owned())
                .collect(),
            ));
        }
    }
    out
}

const BASH_INIT: &str = "local cur prev words cword ; _init_completion || return ;";

/// lex a bash/zsh script into calls; Err(reason) when it is not a sequence of bpaf's directives
/// with all data inside single quotes
pub fn lex_calls(text: &str, zsh: bool, raws: &[String]) -> Result<Vec<Call>, String> {
    // the only fixed text with shell operators is the bash init prefix: take it out first
    let cleaned = text.replace(BASH_INIT, "__BPAF_INIT__ ");
    let cmds = match lex(&cleaned) {
        Ok(c) => c,
        Err(LexError::UnterminatedQuote) => return Err("unterminated single quote".into()),
        Err(LexError::Meta(c, ctx)) => {
            return Err(format!("active shell metacharacter {:?} outside quotes (near {:?})", c, ctx))
        }
    };
    let mut out = Vec::new();
    for c in cmds {
        let w = &c.words;
        let head = w[0].bare.as_str();
        let all_quoted = |ws: &[crate::lexers::sh::Word]| ws.iter().all(|x| x.fully_quoted);
        if raws.iter().any(|r| r == &w[0].text) && w.len() == 1 {
            out.push(Call::Raw(w[0].text.clone()));
        } else if head == "__BPAF_INIT__" {
            // __BPAF_INIT__ _filedir [-d] ['mask']
            if w.len() < 2 || w[1].bare != "_filedir" {
                return Err(format!("directive glued to the init prefix: {:?}", w.iter().map(|x| x.text.clone()).collect::<Vec<_>>()));
            }
            let mut args = Vec::new();
            for x in &w[2..] {
                if x.bare == "-d" && !x.fully_quoted {
                    args.push("-d".to_owned());
                } else if x.fully_quoted {
                    args.push(x.text.clone());
                } else {
                    return Err(format!("unquoted argument {:?} to _filedir", x.text));
                }
            }
            out.push(Call::Filedir(args));
        } else if !zsh && head == "COMPREPLY+=" {
            if w.len() < 3 || w[1].bare != "(" || w[w.len() - 1].bare != ")" {
                return Err("malformed COMPREPLY assignment".into());
            }
            let inner = &w[2..w.len() - 1];
            if !all_quoted(inner) {
                return Err(format!(
                    "unquoted data in COMPREPLY: {:?}",
                    inner.iter().map(|x| x.text.clone()).collect::<Vec<_>>()
                ));
            }
            out.push(Call::Reply(inner.iter().map(|x| x.text.clone()).collect()));
        } else if zsh && head == "compadd" {
            let mut args = Vec::new();
            for x in &w[1..] {
                let fixed = ["-l", "-d", "descr", "-V", "nosort", "-X", "--"];
                if x.fully_quoted {
                    args.push(x.text.clone());
                } else if fixed.contains(&x.bare.as_str()) && x.bare == x.text {
                    args.push(x.text.clone());
                } else {
                    return Err(format!("unquoted data {:?} passed to compadd", x.text));
                }
            }
            out.push(Call::Compadd(args));
        } else if zsh && head == "_files" {
            let mut args = Vec::new();
            for x in &w[1..] {
                if x.fully_quoted || ["-/", "-g"].contains(&x.bare.as_str()) {
                    args.push(x.text.clone());
                } else {
                    return Err(format!("unquoted data {:?} passed to _files", x.text));
                }
            }
            out.push(Call::Files(args));
        } else if zsh && head == "local" && w.len() == 3 && w[1].bare == "-a" && w[2].bare == "descr" {
            out.push(Call::LocalDescr);
        } else if zsh && head == "descr=" {
            if w.len() < 3 || w[1].bare != "(" || w[w.len() - 1].bare != ")" {
                return Err("malformed descr assignment".into());
            }
            let inner = &w[2..w.len() - 1];
            if !all_quoted(inner) {
                return Err("unquoted data in descr".into());
            }
            out.push(Call::Descr(inner.iter().map(|x| x.text.clone()).collect()));
        } else {
            return Err(format!(
                "not one of bpaf's directives: {:?}",
                w.iter().map(|x| x.text.clone()).collect::<Vec<_>>()
            ));
        }
    }
    Ok(out)
}

fn work_dir() -> PathBuf {
    // inside the run directory of the parent (removed when the check ends)
    let base = std::env::var_os("BPAF_VERIF_RUNDIR")
        .map(PathBuf::from)
        .unwrap_or_else(|| PathBuf::from(crate::engine::verif_root()).join("work"));
    let d = base.join(format!("c15-{}", std::process::id()));
    let _ = fs::create_dir_all(&d);
    d
}

/// Source the text in a real bash inside a function with stubbed helpers; returns the recorded
/// calls, or Err(description)
pub fn exec_under_bash(text: &str, zsh: bool) -> Result<Vec<Call>, String> {
    let dir = work_dir();
    let _ = fs::remove_file(dir.join("CANARY"));
    let script = format!(
        r#"set +H
rec() {{ printf '%s' "$1"; shift; for a in "$@"; do printf '\x01%s' "$a"; done; printf '\x02'; }}
_init_completion() {{ return 0; }}
_filedir() {{ rec FILEDIR "$@"; }}
_files() {{ rec FILES "$@"; }}
_bash_raw() {{ rec RAW _bash_raw; }}
_zsh_raw() {{ rec RAW _zsh_raw; }}
compadd() {{ rec DESCR "${{descr[@]}}"; rec COMPADD "$@"; }}
bpaf_generated() {{
COMPREPLY=()
{}
}}
bpaf_generated
rec REPLY "${{COMPREPLY[@]}}"
"#,
        text
    );
    let path = dir.join("run.sh");
    fs::write(&path, script).map_err(|e| e.to_string())?;
    let out = Command::new("bash")
        .arg("--noprofile")
        .arg("--norc")
        .arg(&path)
        .current_dir(&dir)
        .env_clear()
        .env("PATH", "/usr/bin:/bin")
        .output()
        .map_err(|e| format!("cannot run bash: {}", e))?;
    if dir.join("CANARY").exists() {
        let _ = fs::remove_file(dir.join("CANARY"));
        return Err("typed or declared text was EXECUTED by the shell (canary file created)".into());
    }
    if !out.stderr.is_empty() {
        return Err(format!(
            "the shell complained: {}",
            String::from_utf8_lossy(&out.stderr)
        ));
    }
    let mut calls = Vec::new();
    let s = String::from_utf8_lossy(&out.stdout).into_owned();
    let mut last_descr: Vec<String> = Vec::new();
    for rec in s.split('\u{2}') {
        if rec.is_empty() {
            continue;
        }
        let mut f = rec.split('\u{1}');
        let kind = f.next().unwrap_or("");
        let args: Vec<String> = f.map(str::to_owned).collect();
        match kind {
            "FILEDIR" => calls.push(Call::Filedir(args)),
            "FILES" => calls.push(Call::Files(args)),
            "RAW" => calls.push(Call::Raw(args.join(" "))),
            "DESCR" => last_descr = args,
            "COMPADD" => {
                if zsh && !last_descr.is_empty() {
                    calls.push(Call::Descr(last_descr.clone()));
                }
                calls.push(Call::Compadd(args));
            }
            "REPLY" => {
                if !zsh {
                    calls.push(Call::Reply(args));
                }
            }
            _ => return Err(format!("unexpected output from the stub shell: {:?}", rec)),
        }
    }
    Ok(calls)
}

pub fn check_case(case: &Case, ctx: &mut Ctx) -> Verdict {
    let parser = match guarded(|| {
        let p = build_level(&case.level);
        p.check_invariants(false);
        p
    }) {
        Ok(p) => p,
        Err((at, msg)) => {
            return Verdict::fail(
                "generator/invariants",
                format!("check_invariants panicked at {}: {}", at, msg),
            )
        }
    };
    let mut argv = case.prefix.clone();
    argv.push(case.typed.clone().into_bytes());
    let name = if case.named { Some("app") } else { None };
    let rev0 = run_cfg(&parser, &argv, &RunCfg { name, comp: Some(0) });
    let out = run_cfg(
        &parser,
        &argv,
        &RunCfg {
            name,
            comp: Some(case.rev),
        },
    );
    ctx.eval(2);
    let (t0, text) = match (&rev0, &out) {
        (Outcome::Completion(a), Outcome::Completion(b)) => (a.clone(), b.clone()),
        (Outcome::Panic { at, msg }, _) | (_, Outcome::Panic { at, msg }) => {
            return Verdict::fail(format!("panic@{}", at), msg.clone())
        }
        (a, b) => {
            return Verdict::fail(
                "completion-request-not-answered-with-completion",
                format!("{:?}: rev0 {} rev{} {}", show_argv(&argv), a.short(), case.rev, b.short()),
            )
        }
    };
    let r = parse_rev0(&t0, &case.typed);
    let ops = match ops_of(&case.level, &r.ops) {
        Some(o) => o,
        None => return Verdict::Skip("revision 0 shell-op lines not recognised"),
    };
    let shell_name = match case.rev {
        8 => "bash",
        7 => "zsh",
        9 => "fish",
        _ => "elvish",
    };
    ctx.class(&format!("shell:{}", shell_name));
    let meta = |s: &str| s.chars().any(|c| "'\"$`;&|<>*?\\(){}!#~ \n\t".contains(c));
    let hostile_present = meta(&case.typed)
        || r.rows.iter().any(|x| meta(&x.subst) || meta(&x.help) || meta(&x.group))
        || !ops.is_empty();
    if hostile_present {
        ctx.nontrivial(fnv_str(&format!("{:?}{:?}{}", case.level, argv, case.rev)));
    }
    if !ops.is_empty() {
        ctx.class("has-shell-op");
    }
    let fail = |sig: String, what: String| -> Verdict {
        Verdict::fail(
            sig,
            format!(
                "{} on {:?} revision {} ({}):\n{}\nrevision 0 said:\n{}\n{} output:\n{}",
                show_level(&case.level),
                show_argv(&argv),
                case.rev,
                shell_name,
                what,
                t0,
                shell_name,
                text
            ),
        )
    };
    match case.rev {
        7 | 8 => {
            let zsh = case.rev == 7;
            let raws: Vec<String> = ops
                .iter()
                .filter_map(|o| match o {
                    ShellSpec::Raw { bash, zsh: z, .. } => Some(if zsh { z.clone() } else { bash.clone() }),
                    _ => None,
                })
                .collect();
            let want = if zsh {
                expected_zsh(&r, &ops)
            } else {
                expected_bash(&r, &ops)
            };
            let got = match lex_calls(&text, zsh, &raws) {
                Ok(g) => g,
                Err(why) => {
                    let sig = if why.contains("outside quotes") || why.contains("unquoted") {
                        format!("{}/unquoted-data", shell_name)
                    } else if why.contains("glued") || why.contains("not one of") {
                        format!("{}/malformed-directive", shell_name)
                    } else {
                        format!("{}/unlexable", shell_name)
                    };
                    return fail(sig, why);
                }
            };
            let strip = |v: &[Call]| -> Vec<Call> {
                v.iter().filter(|c| !matches!(c, Call::LocalDescr)).cloned().collect()
            };
            if strip(&got) != strip(&want) {
                // which kind of difference
                let count = |v: &[Call], f: &dyn Fn(&Call) -> bool| v.iter().filter(|c| f(c)).count();
                let is_op = |c: &Call| matches!(c, Call::Filedir(_) | Call::Files(_) | Call::Raw(_));
                let sig = if count(&got, &is_op) != count(&want, &is_op) {
                    format!("{}/shell-completer-lost-or-duplicated", shell_name)
                } else {
                    format!("{}/candidates-differ-from-revision-0", shell_name)
                };
                return fail(sig, format!("expected directives {:?}\nfound {:?}", want, got));
            }
            if case.exec {
                ctx.class("executed-under-bash");
                match exec_under_bash(&text, zsh) {
                    Ok(calls) => {
                        // the stub shell sees: ops and compadd/descr calls (zsh) or the final
                        // COMPREPLY (bash)
                        let want_exec: Vec<Call> = if zsh {
                            want.iter().filter(|c| !matches!(c, Call::LocalDescr)).cloned().collect()
                        } else {
                            let mut v: Vec<Call> = want
                                .iter()
                                .filter(|c| !matches!(c, Call::Reply(_)))
                                .cloned()
                                .collect();
                            let words: Vec<String> = want
                                .iter()
                                .filter_map(|c| match c {
                                    Call::Reply(w) => Some(w.clone()),
                                    _ => None,
                                })
                                .flatten()
                                .collect();
                            v.push(Call::Reply(words));
                            v
                        };
                        // an empty COMPREPLY is reported by the stub as one empty record
                        let norm = |v: Vec<Call>| -> Vec<Call> {
                            v.into_iter()
                                .filter(|c| !matches!(c, Call::Reply(w) if w.is_empty()))
                                .collect()
                        };
                        if norm(calls.clone()) != norm(want_exec.clone()) {
                            return fail(
                                format!("{}/executed-result-differs", shell_name),
                                format!("a real bash saw {:?}\nexpected {:?}", calls, want_exec),
                            );
                        }
                    }
                    Err(why) => {
                        let sig = if why.contains("EXECUTED") {
                            format!("{}/text-executed-by-the-shell", shell_name)
                        } else {
                            format!("{}/shell-error-when-sourced", shell_name)
                        };
                        return fail(sig, why);
                    }
                }
            }
        }
        9 | 1 => {
            let fish = case.rev == 9;
            let mut want: Vec<String> = Vec::new();
            if fish {
                if let Some(e) = &r.echo {
                    want.push(e.clone());
                }
                for x in r.rows.iter().rev().filter(|x| !x.subst.is_empty()) {
                    if x.help.is_empty() {
                        want.push(x.subst.clone());
                    } else {
                        want.push(format!("{}\t{}", x.subst, x.help));
                    }
                }
            } else if r.rows.len() == 1 {
                want.push(r.rows[0].subst.clone());
            } else {
                for x in &r.rows {
                    if x.help.is_empty() {
                        want.push(x.subst.clone());
                    } else {
                        want.push(format!("{}\t{}", x.subst, x.help.split('\n').next().unwrap_or("")));
                    }
                }
            }
            // one directive per line: a row that contains a line break is broken
            if let Some(bad) = want.iter().find(|w| w.contains('\n')) {
                return fail(
                    format!("{}/row-broken-by-line-break", shell_name),
                    format!("row {:?} spans several lines", bad),
                );
            }
            let got: Vec<String> = text.split('\n').map(str::to_owned).collect();
            let got: Vec<String> = match got.split_last() {
                Some((last, rest)) if last.is_empty() => rest.to_vec(),
                _ => got,
            };
            // revision 0 printed only the replacement: the help column is unknown
            let same = if fish && r.bare_single && got.len() == 1 && want.len() == 1 {
                got[0] == want[0] || got[0].starts_with(&format!("{}\t", want[0]))
            } else {
                got == want
            };
            if !same {
                return fail(
                    format!("{}/rows-differ-from-revision-0", shell_name),
                    format!("expected rows {:?}\nfound {:?}", want, got),
                );
            }
            if ops.iter().any(|o| !matches!(o, ShellSpec::Nothing)) {
                return fail(
                    format!("{}/shell-completer-dropped", shell_name),
                    format!("requested shell completers {:?} do not appear in the output", ops),
                );
            }
        }
        _ => {}
    }
    Verdict::Pass
}

impl Prop for C15 {
    fn id(&self) -> &'static str {
        "C15"
    }
    fn cases(&self) -> (u64, u64) {
        (200_000, 1_500_000)
    }
    fn rule(&self) -> &'static str {
        "choice bytes -> broad definition whose completer candidates, descriptions, groups, file \
         masks and help texts come from a hostile pool (quotes, $(..), backquotes, ;, &&, globs, \
         redirections, history and brace expansion, non-ASCII, help longer than 100 columns), \
         complete_shell File/Dir/Raw/Nothing -> a line prefix and a typed word (empty, -, --, value \
         position of an argument with a completer, hostile word incl. newline/tab) -> revision 1, 7, \
         8 or 9, with or without application name. Oracle: (a) the revision-0 answer for the same \
         line gives the candidate tuples and shell completers; (b) bash/zsh text is lexed by an \
         independent shell-word lexer: every command must be one of bpaf's directives, every piece \
         of data must sit inside single quotes, and the decoded directives must equal the ones \
         computed from revision 0 (each candidate and each shell completer exactly once); fish and \
         elvish text must be exactly one row per candidate, no row broken by a line break, and must \
         not drop requested shell completers; (c) for a sample (~1/5) the bash/zsh text is sourced \
         by a real bash inside a function with stubbed _init_completion/_filedir/compadd/_files: \
         the recorded calls and COMPREPLY must equal (a), stderr must be empty and a canary file \
         named in the hostile strings must not appear. Non-trivial: a shell metacharacter in the \
         typed word or a candidate/help/group, or a shell completer present; distinct by hash of \
         (definition, line, revision)."
    }
    fn assumptions(&self) -> Vec<&'static str> {
        vec![
            "no zsh, fish or elvish binary exists in the sandbox: zsh text is executed by bash with stubbed compadd/_files (single-quote, `local -a`, array assignment and `--` semantics are shared); fish and elvish output is checked against the line format their bpaf stubs consume",
            "completer candidates and groups never contain tab or newline (a line protocol cannot carry them)",
        ]
    }
    fn check(&self, bytes: &[u8], ctx: &mut Ctx) -> Verdict {
        let case = decode(bytes);
        check_case(&case, ctx)
    }
    fn describe(&self, bytes: &[u8]) -> Value {
        let case = decode(bytes);
        json!({
            "definition": show_level(&case.level),
            "items_before": show_argv(&case.prefix),
            "typed": case.typed,
            "revision": case.rev,
            "app_name": case.named,
            "executed_under_bash": case.exec,
        })
    }
    fn regressions(&self) -> Vec<Regression> {
        vec![
            Regression { name: "zsh-echo-of-typed-word", run: reg_zsh_echo },
            Regression { name: "bash-filedir-without-newline", run: reg_bash_filedir },
            Regression { name: "fish-long-help", run: reg_fish_long_help },
            Regression { name: "zsh-single-candidate-drops-shell-completer", run: reg_zsh_single },
            Regression { name: "fish-drops-shell-completer", run: reg_fish_ops },
            Regression { name: "elvish-drops-shell-completer", run: reg_elvish_ops },
        ]
    }
}

fn simple_case(level: Level, prefix: &[&str], typed: &str, rev: usize, exec: bool) -> Case {
    Case {
        level,
        prefix: crate::outcome::argv_of(prefix),
        typed: typed.into(),
        rev,
        named: true,
        exec,
    }
}

fn reg_zsh_echo(ctx: &mut Ctx) -> Verdict {
    use crate::mk::*;
    let l = lvl(seq(vec![sw("a", &["alpha"])]));
    check_case(&simple_case(l, &[], "$(touch CANARY)", 7, true), ctx)
}

fn reg_bash_filedir(ctx: &mut Ctx) -> Verdict {
    use crate::mk::*;
    let l = lvl(seq(vec![
        sw("a", &["alpha"]),
        Node::CompleteShell(pos("FILE", Ty::Str).b(), ShellSpec::File(None)),
    ]));
    check_case(&simple_case(l, &[], "", 8, true), ctx)
}

fn reg_fish_long_help(ctx: &mut Ctx) -> Verdict {
    use crate::mk::*;
    let long = "word ".repeat(30);
    let l = lvl(seq(vec![
        with_help(sw("a", &["alpha"]), &long),
        with_help(sw("b", &["beta"]), "short"),
    ]));
    check_case(&simple_case(l, &[], "--", 9, false), ctx)
}

fn reg_zsh_single(ctx: &mut Ctx) -> Verdict {
    use crate::mk::*;
    let l = lvl(seq(vec![
        sw("a", &["alpha"]),
        Node::CompleteShell(pos("FILE", Ty::Str).b(), ShellSpec::File(None)),
    ]));
    check_case(&simple_case(l, &[], "", 7, true), ctx)
}

fn reg_fish_ops(ctx: &mut Ctx) -> Verdict {
    use crate::mk::*;
    let l = lvl(seq(vec![Node::CompleteShell(
        pos("FILE", Ty::Str).b(),
        ShellSpec::File(None),
    )]));
    check_case(&simple_case(l, &[], "", 9, false), ctx)
}

fn reg_elvish_ops(ctx: &mut Ctx) -> Verdict {
    use crate::mk::*;
    let l = lvl(seq(vec![Node::CompleteShell(
        pos("FILE", Ty::Str).b(),
        ShellSpec::File(None),
    )]));
    check_case(&simple_case(l, &[], "", 1, false), ctx)
}
