//! C18 — environment variables are a fallback below the command line.

use std::collections::HashMap;
use std::ffi::OsString;
use std::os::unix::ffi::OsStringExt;

use serde_json::{json, Value};

use crate::build::build_level;
use crate::engine::{Ctx, Prop, Regression, Verdict};
use crate::gen::*;
use crate::model::{model_env, MOut};
use crate::outcome::{guarded, run, show_argv, show_bytes, Outcome};
use crate::props::c11::{predict, spawn_subject};
use crate::spec::*;
use crate::un::{fnv_str, Un};

pub struct C18;

pub const SIG_REPEATED_BAD_ENV: &str = "invalid-env-value-fails-repeated-argument-given-on-the-line";

#[derive(Clone, Debug, PartialEq, Eq)]
pub enum EnvState {
    Unset,
    Empty,
    Valid,
    Invalid,
    NonUtf8,
}

pub struct Case {
    pub level: Level,
    pub spec_bytes: Vec<u8>,
    pub argv: Vec<Vec<u8>>,
    /// declared variables that are set
    pub env: Vec<(String, Vec<u8>)>,
    pub undeclared: Vec<(String, Vec<u8>)>,
    /// leaf id -> it is absent from the line
    pub env_decides: bool,
    pub states: Vec<(String, EnvState)>,
    pub child: bool,
}

/// conventional definition in which some named items carry env(NAME); the last component lists
/// the leaves that are to lose their short and long names (items known by their variable only)
fn decode_level_named(u: &mut Un) -> (Level, Vec<(String, Ty, bool)>, Vec<usize>) {
    let mut names = Names::new();
    let cfg = ConvCfg {
        max_named: 5,
        max_depth: 2,
        usage_fallback: true,
        collect: true,
        ..ConvCfg::default()
    };
    let mut level = gen_conv_level(u, &mut names, &cfg, 1);
    // attach variables
    let mut vars: Vec<(String, Ty, bool)> = Vec::new();
    let mut env_only: Vec<usize> = Vec::new();
    fn go(n: &mut Node, u: &mut Un, vars: &mut Vec<(String, Ty, bool)>, env_only: &mut Vec<usize>) {
        match n {
            Node::Named(x) => {
                if vars.len() < 5 && u.chance(130) {
                    let k = 1 + usize::from(u.chance(70));
                    for i in 0..k {
                        let name = format!("BPAF_VERIF_V{}_{}", x.id, i);
                        let (ty, is_arg) = match &x.kind {
                            NamedKind::Arg { ty, .. } => (*ty, true),
                            _ => (Ty::Str, false),
                        };
                        x.envs.push(name.clone());
                        vars.push((name, ty, is_arg));
                    }
                    if u.chance(40) {
                        env_only.push(x.id);
                    }
                }
            }
            Node::Cmd(c) => go(&mut c.level.body, u, vars, env_only),
            Node::Pos(_) | Node::Pure(_) | Node::Fail(_) | Node::Any(_) => {}
            Node::Seq(xs) | Node::Alt(xs) | Node::Adjacent(xs) => {
                for x in xs {
                    go(x, u, vars, env_only);
                }
            }
            Node::Optional { n, .. }
            | Node::Many { n, .. }
            | Node::Some { n, .. }
            | Node::Collect { n, .. }
            | Node::Count(n)
            | Node::Last(n)
            | Node::Fallback { n, .. }
            | Node::FallbackWith { n, .. }
            | Node::Guard { n, .. }
            | Node::Parse { n, .. }
            | Node::Map(n)
            | Node::Hide(n)
            | Node::HideUsage(n)
            | Node::CustomUsage(n, _)
            | Node::GroupHelp(n, _)
            | Node::WithGroupHelp(n, _)
            | Node::Complete { n, .. }
            | Node::CompleteShell(n, _)
            | Node::Boxed(n) => go(n, u, vars, env_only),
        }
    }
    go(&mut level.body, u, &mut vars, &mut env_only);
    (level, vars, env_only)
}

/// items known by their variable only: `env("X").argument(..)`
fn strip_names(level: &mut Level, env_only: &[usize]) {
    fn go(n: &mut Node, env_only: &[usize]) {
        match n {
            Node::Named(x) => {
                if env_only.contains(&x.id) {
                    x.shorts.clear();
                    x.longs.clear();
                }
            }
            Node::Cmd(c) => go(&mut c.level.body, env_only),
            other => {
                for c in other.children_mut() {
                    go(c, env_only);
                }
            }
        }
    }
    go(&mut level.body, env_only);
}

/// the definition as the child process builds it
pub fn decode_level(u: &mut Un) -> (Level, Vec<(String, Ty, bool)>) {
    let (mut level, vars, env_only) = decode_level_named(u);
    strip_names(&mut level, &env_only);
    (level, vars)
}

pub fn decode(bytes: &[u8]) -> Case {
    let mut u = Un::new(bytes);
    let (mut level, vars, env_only) = decode_level_named(&mut u);
    let used = u.used().min(bytes.len());
    let mut spec_bytes = bytes[..used].to_vec();
    spec_bytes.resize(used.max(1), 0);
    // the line: a sentence of the definition from which env-backed items are often left out
    let mut names = Names::new();
    let (mut sent, _) = gen_conv_sentence(&mut u, &mut names, &level);
    let env_leaves: Vec<usize> = level
        .body
        .named_leaves(true)
        .iter()
        .filter(|l| !l.envs.is_empty())
        .map(|l| l.id)
        .collect();
    let mut env_decides = false;
    fn strip(s: &mut LevelSent, leaves: &[usize], u: &mut Un, decided: &mut bool) {
        for l in leaves {
            if s.named.iter().any(|o| o.leaf == *l) && u.chance(150) {
                s.named.retain(|o| o.leaf != *l);
                *decided = true;
            }
        }
        if let Some((_, sub)) = s.cmd.as_mut() {
            strip(sub, leaves, u, decided);
        }
    }
    strip(&mut sent, &env_leaves, &mut u, &mut env_decides);
    // items known by their variable only cannot be written on the line at all
    fn strip_all(s: &mut LevelSent, leaves: &[usize]) {
        s.named.retain(|o| !leaves.contains(&o.leaf));
        if let Some((_, sub)) = s.cmd.as_mut() {
            strip_all(sub, leaves);
        }
    }
    strip_all(&mut sent, &env_only);
    strip_names(&mut level, &env_only);
    let mut stats = RenderStats::default();
    let mut argv = render_conv(&mut u, &sent, &RenderCfg::default(), &mut stats);
    if u.chance(40) {
        let mut log = Vec::new();
        crate::props::c01::mutate(&mut u, &level, &mut argv, &mut log);
    }
    // environment
    let mut env = Vec::new();
    let mut states = Vec::new();
    for (name, ty, is_arg) in &vars {
        let st = match u.weighted(&[4, 1, 5, 2, 1]) {
            0 => EnvState::Unset,
            1 => EnvState::Empty,
            2 => EnvState::Valid,
            3 => EnvState::Invalid,
            _ => EnvState::NonUtf8,
        };
        let val: Option<Vec<u8>> = match (&st, ty, is_arg) {
            (EnvState::Unset, _, _) => None,
            (EnvState::Empty, _, _) => Some(Vec::new()),
            (EnvState::Valid, Ty::U32 | Ty::I64, true) => Some(format!("{}", 7000 + env.len()).into_bytes()),
            (EnvState::Valid, _, _) => Some(format!("e{}", env.len()).into_bytes()),
            (EnvState::Invalid, _, _) => Some(b"x!".to_vec()),
            (EnvState::NonUtf8, _, _) => Some(b"n\xff".to_vec()),
        };
        if let Some(v) = val {
            env.push((name.clone(), v));
        }
        states.push((name.clone(), st));
    }
    let n_und = u.below(4);
    let undeclared = (0..n_und)
        .map(|i| {
            (
                format!("BPAF_VERIF_UNDECLARED_{}", i),
                (*u.pick(&[&b"1"[..], &b""[..], &b"x\xff"[..], &b"--help"[..]])).to_vec(),
            )
        })
        .collect();
    Case {
        level,
        spec_bytes,
        argv,
        env,
        undeclared,
        env_decides,
        states,
        child: u.chance(8),
    }
}

fn clear_env() {
    let keys: Vec<OsString> = std::env::vars_os()
        .map(|(k, _)| k)
        .filter(|k| k.to_string_lossy().starts_with("BPAF_VERIF_"))
        .collect();
    for k in keys {
        std::env::remove_var(k);
    }
}

fn set_env(vars: &[(String, Vec<u8>)]) {
    for (k, v) in vars {
        std::env::set_var(k, OsString::from_vec(v.clone()));
    }
}

impl Prop for C18 {
    fn id(&self) -> &'static str {
        "C18"
    }
    fn cases(&self) -> (u64, u64) {
        (300_000, 2_000_000)
    }
    fn rule(&self) -> &'static str {
        "choice bytes -> conventional definition (depth <=2) in which up to 5 named items of any \
         kind and arity carry env(BPAF_VERIF_*) with one or two variables -> a sentence from which \
         env-backed items are often removed (sometimes mutated further) -> an environment: every \
         declared variable unset / empty / valid / invalid / non-UTF-8, plus 0-3 undeclared \
         variables. The worker process is single threaded and owns its environment (set before, \
         cleared after every case). Oracle: the reference grammar model extended with the rule \
         'absent from the line -> first of its variables that is set, through the same conversion; \
         flags: present iff set'; the outcome with the undeclared variables added must be \
         identical; the help text shows `[env:NAME...]` in the state of the first variable. About \
         3% of the cases are also run through the real `subject` executable with a real envp. \
         Non-trivial: an env-backed item is absent from the line so the environment decides; \
         distinct by hash of (definition, argv, environment)."
    }
    fn check(&self, bytes: &[u8], ctx: &mut Ctx) -> Verdict {
        let case = decode(bytes);
        let parser = match guarded(|| {
            let p = build_level(&case.level);
            p.check_invariants(false);
            p
        }) {
            Ok(p) => p,
            Err((at, msg)) => {
                return Verdict::fail(
                    "generator/invariants",
                    format!("check_invariants panicked at {}: {}", at, msg),
                )
            }
        };
        clear_env();
        set_env(&case.env);
        let got = run(&parser, &case.argv);
        ctx.eval(1);
        set_env(&case.undeclared);
        let got2 = run(&parser, &case.argv);
        ctx.eval(1);
        // help text with the variables in this state
        let help = run(&parser, &crate::outcome::argv_of(&["--help"]));
        clear_env();
        if let Outcome::Panic { at, msg } = &got {
            return Verdict::fail(format!("panic@{}", at), msg.clone());
        }
        for (_, st) in &case.states {
            ctx.class(&format!("var:{:?}", st));
        }
        if case.env_decides {
            ctx.class("environment-decides");
            ctx.nontrivial(fnv_str(&format!("{:?}{:?}{:?}", case.level, case.argv, case.env)));
        }
        let envmap: HashMap<String, Vec<u8>> = case.env.iter().cloned().collect();
        let m = model_env(&case.level, &case.argv, &envmap);
        let ctxt = || {
            format!(
                "{}\nargv {:?}\nenvironment {:?}",
                show_level(&case.level),
                show_argv(&case.argv),
                case.env
                    .iter()
                    .map(|(k, v)| format!("{}={}", k, show_bytes(v)))
                    .collect::<Vec<_>>()
            )
        };
        match (&m, &got) {
            (MOut::Outside(_), _) => {}
            (MOut::Value(a), Outcome::Value(b)) if a == b => {}
            (MOut::Reject(_), Outcome::Stderr(t)) if !t.trim().is_empty() => {}
            (MOut::Help { .. } | MOut::Version { .. }, Outcome::Stdout { .. }) => {}
            (MOut::Value(a), o) => {
                // a repeated (many/some/last) argument that IS on the line, whose variable holds
                // a value that does not convert: after the line is exhausted bpaf consults the
                // variable once more and reports its conversion error
                let repeated_with_bad_env = {
                    let rep = {
                        let mut v = Vec::new();
                        for (_, l) in crate::props::c10::levels_with_paths(&case.level) {
                            v.extend(crate::props::c05::repeatable_leaves(l));
                        }
                        v
                    };
                    case.level.body.named_leaves(true).iter().any(|l| {
                        let ty = match &l.kind {
                            NamedKind::Arg { ty, .. } => *ty,
                            _ => return false,
                        };
                        rep.contains(&l.id)
                            && l.envs.iter().find_map(|e| envmap.get(e)).map_or(false, |v| ty.convert(v).is_err())
                    })
                };
                let conv_text = matches!(o, Outcome::Stderr(t) if t.contains("couldn't parse"));
                return Verdict::fail(
                    if repeated_with_bad_env && conv_text {
                        SIG_REPEATED_BAD_ENV
                    } else {
                        "env/expected-value-not-produced"
                    },
                    format!("{}\nshould give {} but bpaf returned {}", ctxt(), a, o.short()),
                )
            }
            (MOut::Reject(why), o) => {
                return Verdict::fail(
                    "env/expected-failure-not-reported",
                    format!("{}\nmust fail ({}) but bpaf returned {}", ctxt(), why, o.short()),
                )
            }
            (m, o) => {
                return Verdict::fail(
                    "env/unexpected-class",
                    format!("{}\nmodel {:?} bpaf {}", ctxt(), m, o.short()),
                )
            }
        }
        if got != got2 {
            return Verdict::fail(
                "undeclared-variable-changes-outcome",
                format!(
                    "{}\nwith {:?} also set: {} instead of {}",
                    ctxt(),
                    case.undeclared.iter().map(|x| x.0.clone()).collect::<Vec<_>>(),
                    got2.short(),
                    got.short()
                ),
            );
        }
        // help shows the state of the first variable of every visible env-backed item of the
        // top level
        if let Outcome::Stdout { text, .. } = &help {
            for l in case.level.body.named_leaves(false) {
                let first = match l.envs.first() {
                    Some(f) => f,
                    None => continue,
                };
                if l.shorts.is_empty() && l.longs.is_empty() {
                    // an item known by its variable only has no line in the option list
                    continue;
                }
                let val = envmap.get(first);
                let want = if l.is_arg() {
                    match val {
                        Some(v) => format!("[env:{} = {:?}]", first, String::from_utf8_lossy(v)),
                        None => format!("[env:{}: N/A]", first),
                    }
                } else {
                    match val {
                        Some(_) => format!("[env:{}: set]", first),
                        None => format!("[env:{}: not set]", first),
                    }
                };
                let squash = |s: &str| s.split_whitespace().collect::<Vec<_>>().join(" ");
                if !squash(text).contains(&squash(&want)) {
                    return Verdict::fail(
                        "help-shows-wrong-variable-state",
                        format!("{}\nexpected {:?} in\n{}", ctxt(), want, text),
                    );
                }
            }
        }
        // cross check through a real process with a real envp
        if case.child {
            ctx.class("cross-checked-in-child-process");
            let mut envp = case.env.clone();
            envp.extend(case.undeclared.iter().cloned());
            if let Some((o, e, code)) = predict(&got) {
                match spawn_subject("c18", &case.spec_bytes, &case.argv, b"subject", &envp) {
                    Ok(c) => {
                        ctx.eval(1);
                        // the child has an application name, which only shows in usage lines
                        let child_out: Vec<u8> = if matches!(got, Outcome::Stdout { .. }) {
                            String::from_utf8_lossy(&c.stdout)
                                .replacen("Usage: subject ", "Usage: ", 1)
                                .replacen("Usage: subject\n", "Usage: \n", 1)
                                .into_bytes()
                        } else {
                            c.stdout.clone()
                        };
                        let same = c.code == Some(code)
                            && (matches!(got, Outcome::Stderr(_)) || child_out == o)
                            && (c.stderr == e || matches!(got, Outcome::Stderr(_)));
                        if !same {
                            return Verdict::fail(
                                "child-process-disagrees",
                                format!(
                                    "{}\nin-process {}\nchild status {:?} stdout {:?} stderr {:?}",
                                    ctxt(),
                                    got.short(),
                                    c.code,
                                    String::from_utf8_lossy(&c.stdout),
                                    String::from_utf8_lossy(&c.stderr)
                                ),
                            );
                        }
                    }
                    Err(e) => return Verdict::fail("harness/spawn", e),
                }
            }
        }
        Verdict::Pass
    }
    fn regressions(&self) -> Vec<Regression> {
        vec![Regression {
            name: "many-argument-on-the-line-with-invalid-variable",
            run: reg_many_bad_env,
        }]
    }
    fn describe(&self, bytes: &[u8]) -> Value {
        let case = decode(bytes);
        json!({
            "definition": show_level(&case.level),
            "argv": show_argv(&case.argv),
            "environment": case.env.iter().map(|(k, v)| format!("{}={}", k, show_bytes(v))).collect::<Vec<_>>(),
            "undeclared": case.undeclared.iter().map(|(k, v)| format!("{}={}", k, show_bytes(v))).collect::<Vec<_>>(),
            "states": case.states.iter().map(|(k, s)| format!("{}:{:?}", k, s)).collect::<Vec<_>>(),
        })
    }
}

fn reg_many_bad_env(ctx: &mut Ctx) -> Verdict {
    use crate::mk::*;
    let l = lvl(seq(vec![many(with_env(arg("", &["beta"], Ty::I64), "BPAF_VERIF_REG_0"))]));
    let p = build_level(&l);
    clear_env();
    std::env::set_var("BPAF_VERIF_REG_0", "");
    let got = run(&p, &crate::outcome::argv_of(&["--beta", "2001"]));
    clear_env();
    ctx.eval(1);
    let want = crate::value::V::Tup(vec![crate::value::V::List(vec![crate::value::V::Num(2001)])]);
    if got == Outcome::Value(want.clone()) {
        Verdict::Pass
    } else {
        Verdict::fail(
            SIG_REPEATED_BAD_ENV,
            format!("[--beta 2001] with BPAF_VERIF_REG_0=\"\" should give {} but bpaf returned {}", want, got.short()),
        )
    }
}
