//! C20 — optional cargo features do not change parsing.

use std::fs;
use std::path::{Path, PathBuf};
use std::process::{Command, Stdio};

use proptest::collection::vec;
use proptest::prelude::any;
use proptest::test_runner::{Config, RngSeed, TestRunner};
use serde_json::{json, Value};

use crate::c20corpus::decode;
use crate::engine::{hex, Ctx, Prop, RunEnv, Verdict, Violation};
use crate::outcome::show_argv;
use crate::spec::*;
use crate::un::fnv;

pub struct C20;

pub const SETS: &[(&str, &str)] = &[
    ("none", ""),
    ("autocomplete", "autocomplete"),
    ("all", "autocomplete,docgen,batteries,derive"),
    ("dull-color", "dull-color"),
    ("bright-color", "bright-color"),
];

fn target_dir(name: &str) -> PathBuf {
    PathBuf::from(crate::engine::verif_root())
        .join("work")
        .join("target-c20")
        .join(name)
}

fn dumper(name: &str) -> PathBuf {
    target_dir(name).join("release").join("c20dump")
}

/// build the corpus runner once per feature set (in parallel); Err = infrastructure problem
pub fn build_all() -> Result<(), String> {
    let harness = PathBuf::from(crate::engine::verif_root()).join("harness");
    let mut children = Vec::new();
    for (name, feats) in SETS {
        let log = fs::File::create(
            PathBuf::from(crate::engine::verif_root())
                .join("work")
                .join(format!("build-c20-{}.log", name)),
        )
        .map_err(|e| e.to_string())?;
        let mut c = Command::new("cargo");
        c.current_dir(&harness)
            .arg("build")
            .arg("--release")
            .arg("--offline")
            .arg("--bin")
            .arg("c20dump")
            .arg("--no-default-features")
            .arg("--target-dir")
            .arg(target_dir(name));
        if !feats.is_empty() {
            c.arg("--features").arg(feats);
        }
        c.env("CARGO_NET_OFFLINE", "true")
            .stdin(Stdio::null())
            .stdout(Stdio::null())
            .stderr(log);
        children.push((name, c.spawn().map_err(|e| e.to_string())?));
    }
    for (name, mut ch) in children {
        let st = ch.wait().map_err(|e| e.to_string())?;
        if !st.success() {
            return Err(format!(
                "building c20dump with feature set {:?} failed, see work/build-c20-{}.log",
                name, name
            ));
        }
    }
    Ok(())
}

fn run_dumpers(work: &Path, tag: &str, corpus: &[Vec<u8>], sets: &[&str]) -> Result<Vec<Vec<String>>, String> {
    // split the corpus so that all cores are used
    let pieces = 3usize;
    let per = (corpus.len() + pieces - 1) / pieces.max(1);
    let mut jobs = Vec::new();
    for (pi, chunk) in corpus.chunks(per.max(1)).enumerate() {
        let cf = work.join(format!("corpus-{}-{}.txt", tag, pi));
        let text: String = chunk.iter().map(|b| format!("{}\n", hex(b))).collect();
        fs::write(&cf, text).map_err(|e| e.to_string())?;
        for s in sets {
            let of = work.join(format!("dump-{}-{}-{}.txt", tag, s, pi));
            let ch = Command::new(dumper(s))
                .arg(&cf)
                .arg(&of)
                .stdin(Stdio::null())
                .stdout(Stdio::null())
                .stderr(Stdio::null())
                .spawn()
                .map_err(|e| format!("cannot start {:?}: {}", dumper(s), e))?;
            jobs.push((pi, (*s).to_owned(), of, ch));
        }
    }
    let mut outs: Vec<Vec<String>> = vec![Vec::new(); sets.len()];
    let mut collected: Vec<(usize, String, PathBuf)> = Vec::new();
    for (pi, s, of, mut ch) in jobs {
        let st = ch.wait().map_err(|e| e.to_string())?;
        if !st.success() {
            return Err(format!("c20dump ({}) ended with {:?}", s, st));
        }
        collected.push((pi, s, of));
    }
    collected.sort();
    for (si, s) in sets.iter().enumerate() {
        for (_, name, of) in collected.iter().filter(|(_, n, _)| n == s) {
            let _ = name;
            let text = fs::read_to_string(of).map_err(|e| e.to_string())?;
            // blocks start with "#<n>\n"
            let mut cur = String::new();
            let mut first = true;
            for line in text.lines() {
                if line.starts_with('#') && line[1..].chars().all(|c| c.is_ascii_digit()) {
                    if !first {
                        outs[si].push(std::mem::take(&mut cur));
                    }
                    first = false;
                } else {
                    cur.push_str(line);
                    cur.push('\n');
                }
            }
            if !first {
                outs[si].push(cur);
            }
        }
    }
    Ok(outs)
}

fn interesting(level: &Level) -> bool {
    level.body.count_kind(true, &|n| {
        matches!(
            n,
            Node::Alt(_)
                | Node::Optional { .. }
                | Node::Many { .. }
                | Node::Hide(_)
                | Node::GroupHelp(..)
                | Node::Complete { .. }
                | Node::CompleteShell(..)
        )
    }) > 0
}

impl Prop for C20 {
    fn id(&self) -> &'static str {
        "C20"
    }
    fn cases(&self) -> (u64, u64) {
        (40_000, 1_000_000)
    }
    fn uses_workers(&self) -> bool {
        false
    }
    fn rule(&self) -> &'static str {
        "a seeded corpus of choice strings (proptest, fixed seed) is decoded by the widest \
         definition generator (every wrapper, alternatives, adjacent groups, hidden parts, \
         completers and shell completers - simply not attached where the feature is absent -, \
         styled docs incl. ``` blocks, custom help/version, max_width) into (definition, 1-3 argument \
         vectors of arbitrary bytes without --bpaf-complete-* items, sometimes ending in the help or \
         version flag, with/without application name); the same corpus is run by five builds of \
         the corpus runner: no features, autocomplete, autocomplete+docgen+batteries+derive, \
         dull-color, bright-color. Oracle (differential): for every case the five dumps (class, \
         Debug of the value, monochrome text of help/error) are byte-identical. A difference is \
         minimised by re-running the two disagreeing builds on reduced choice strings. Non-trivial: \
         definition with alternative/optional/many/hide/group_help/completer nodes (where the \
         cfg-gated code sits) and at least one outcome that is not help; distinct by hash of the \
         choice string."
    }
    /// only used by `--replay`: one case through all five builds
    fn check(&self, bytes: &[u8], ctx: &mut Ctx) -> Verdict {
        if let Err(e) = build_all() {
            return Verdict::fail("infrastructure/build", e);
        }
        let work = PathBuf::from(crate::engine::verif_root()).join("work");
        let names: Vec<&str> = SETS.iter().map(|s| s.0).collect();
        let dumps = match run_dumpers(&work, "replay", &[bytes.to_vec()], &names) {
            Ok(d) => d,
            Err(e) => return Verdict::fail("infrastructure/run", e),
        };
        ctx.eval(names.len() as u64);
        for (si, d) in dumps.iter().enumerate().skip(1) {
            if d.first() != dumps[0].first() {
                return Verdict::fail(
                    format!("feature-set-changes-outcome/{}-vs-{}", names[0], names[si]),
                    format!(
                        "build `{}` says:\n{}\nbuild `{}` says:\n{}",
                        names[0],
                        dumps[0].first().cloned().unwrap_or_default(),
                        names[si],
                        d.first().cloned().unwrap_or_default()
                    ),
                );
            }
        }
        let mut outs: Vec<(Vec<u8>, Vec<u8>)> = Vec::new();
        for s in &names {
            match Command::new(dumper(s))
                .arg("--print")
                .arg(hex(bytes))
                .env_remove("NO_COLOR")
                .env_remove("CLICOLOR_FORCE")
                .env_remove("FORCE_COLOR")
                .env("TERM", "xterm-256color")
                .stdin(Stdio::null())
                .output()
            {
                Ok(o) => outs.push((o.stdout, o.stderr)),
                Err(e) => return Verdict::fail("infrastructure/run", e.to_string()),
            }
        }
        for (si, o) in outs.iter().enumerate().skip(1) {
            if *o != outs[0] {
                return Verdict::fail(
                    format!("feature-set-changes-printed-message/none-vs-{}", names[si]),
                    format!(
                        "build `none`: stdout {:?} stderr {:?}\nbuild `{}`: stdout {:?} stderr {:?}",
                        String::from_utf8_lossy(&outs[0].0),
                        String::from_utf8_lossy(&outs[0].1),
                        names[si],
                        String::from_utf8_lossy(&o.0),
                        String::from_utf8_lossy(&o.1)
                    ),
                );
            }
        }
        Verdict::Pass
    }
    fn describe(&self, bytes: &[u8]) -> Value {
        let case = decode(bytes);
        json!({
            "definition": show_level(&case.level),
            "lines": case.lines.iter().map(|(a, n)| json!({"argv": show_argv(a), "app_name": n})).collect::<Vec<_>>(),
        })
    }
    fn parent_phase(&self, env: &RunEnv, ev: &mut Value) -> Vec<Violation> {
        let mut out = Vec::new();
        if let Err(e) = build_all() {
            *ev = json!({"build_error": e});
            return vec![Violation {
                sig: "infrastructure/build".into(),
                detail: e,
                bytes: Vec::new(),
                case: json!(null),
            }];
        }
        let (q, t) = self.cases();
        let n = ((if env.tier == "thorough" { t } else { q }) as f64 * env.scale).ceil() as u32;
        // corpus from proptest with a fixed seed
        let corpus: std::cell::RefCell<Vec<Vec<u8>>> = std::cell::RefCell::new(Vec::new());
        let mut runner = TestRunner::new(Config {
            cases: n,
            rng_seed: RngSeed::Fixed(fnv(&[&env.seed.to_le_bytes()[..], b"C20"].concat())),
            failure_persistence: None,
            ..Config::default()
        });
        let _ = runner.run(&vec(any::<u8>(), 0..512), |b| {
            corpus.borrow_mut().push(b);
            Ok(())
        });
        let corpus = corpus.into_inner();
        let names: Vec<&str> = SETS.iter().map(|s| s.0).collect();
        let dumps = match run_dumpers(&env.work, "main", &corpus, &names) {
            Ok(d) => d,
            Err(e) => {
                return vec![Violation {
                    sig: "infrastructure/run".into(),
                    detail: e,
                    bytes: Vec::new(),
                    case: json!(null),
                }]
            }
        };
        let mut nontrivial = std::collections::HashSet::new();
        let mut samples = Vec::new();
        let mut classes: std::collections::BTreeMap<String, u64> = Default::default();
        let mut seen_sigs: Vec<String> = Vec::new();
        let mut pre_seen: Vec<String> = Vec::new();
        let mut differing: u64 = 0;
        for (i, bytes) in corpus.iter().enumerate() {
            let base = dumps[0].get(i);
            if base.is_none() {
                continue;
            }
            let base = base.unwrap();
            let case = decode(bytes);
            for l in base.lines() {
                let k = l.split(' ').next().unwrap_or("");
                *classes.entry(format!("outcome:{}", k)).or_default() += 1;
            }
            let non_help = base.lines().any(|l| !l.starts_with("stdout") && !l.starts_with("rejected"));
            if interesting(&case.level) && non_help {
                nontrivial.insert(fnv(bytes));
                if samples.len() < 5 {
                    samples.push(self.describe(bytes));
                }
            }
            for (si, d) in dumps.iter().enumerate().skip(1) {
                if d.get(i) != Some(base) {
                    // minimise on the two builds that disagree; a change that touches many
                    // cases is minimised a few times per (builds, kind of line) only
                    let pair = [names[0], names[si]];
                    let pre_kind = d
                        .get(i)
                        .map(|o| {
                            base.lines()
                                .zip(o.lines())
                                .find(|(x, y)| x != y)
                                .map(|(x, _)| x.split(' ').next().unwrap_or("").to_owned())
                                .unwrap_or_else(|| "shape".into())
                        })
                        .unwrap_or_else(|| "missing".into());
                    let pre = format!("{}/{}", names[si], pre_kind);
                    differing += 1;
                    let n_pre = pre_seen.iter().filter(|x| **x == pre).count();
                    if n_pre >= 2 || pre_seen.len() >= 8 {
                        break;
                    }
                    pre_seen.push(pre);
                    let mut cur = bytes.clone();
                    let differs = |cands: &[Vec<u8>], tag: &str| -> Vec<bool> {
                        match run_dumpers(&env.work, tag, cands, &pair) {
                            Ok(d) => (0..cands.len()).map(|k| d[0].get(k) != d[1].get(k)).collect(),
                            Err(_) => vec![false; cands.len()],
                        }
                    };
                    for round in 0..12 {
                        let mut cands: Vec<Vec<u8>> = Vec::new();
                        for cut in [cur.len() / 2, cur.len() / 4, 8, 4, 2, 1] {
                            if cut == 0 || cut > cur.len() {
                                continue;
                            }
                            cands.push(cur[..cur.len() - cut].to_vec());
                            let mut k = 0;
                            while k + cut <= cur.len() && cands.len() < 200 {
                                let mut t = cur.clone();
                                t.drain(k..k + cut);
                                cands.push(t);
                                k += cut;
                            }
                        }
                        for k in 0..cur.len().min(100) {
                            if cur[k] != 0 {
                                let mut t = cur.clone();
                                t[k] = 0;
                                cands.push(t);
                            }
                        }
                        if cands.is_empty() {
                            break;
                        }
                        let res = differs(&cands, &format!("min{}", round));
                        match res.iter().position(|x| *x) {
                            Some(p) => cur = cands[p].clone(),
                            None => break,
                        }
                    }
                    let final_d = run_dumpers(&env.work, "final", &[cur.clone()], &pair).unwrap_or_default();
                    let a = final_d.first().and_then(|x| x.first()).cloned().unwrap_or_default();
                    let b = final_d.get(1).and_then(|x| x.first()).cloned().unwrap_or_default();
                    // signature: which builds, and what kind of line differs
                    let kind = a
                        .lines()
                        .zip(b.lines())
                        .find(|(x, y)| x != y)
                        .map(|(x, _)| x.split(' ').next().unwrap_or("").to_owned())
                        .unwrap_or_else(|| "shape".into());
                    let ticks = show_level(&decode(&cur).level).contains("```");
                    let sig = if ticks && pair[1] == "all" {
                        SIG_TICKS.to_owned()
                    } else {
                        format!("feature-set-changes-outcome/{}-vs-{}/{}", pair[0], pair[1], kind)
                    };
                    if !seen_sigs.contains(&sig) {
                        seen_sigs.push(sig.clone());
                        out.push(Violation {
                            sig,
                            detail: format!(
                                "build `{}` says:\n{}\nbuild `{}` says:\n{}",
                                pair[0], a, pair[1], b
                            ),
                            case: self.describe(&cur),
                            bytes: cur,
                        });
                    }
                    break;
                }
            }
        }
        // what bpaf prints itself (the path of OptionParser::run): same bytes on the same
        // stream from every build when the streams are not a terminal
        let n_print = if env.tier == "thorough" { 1500 } else { 150 };
        let mut printed = 0u64;
        let mut print_seen = false;
        for (i, bytes) in corpus.iter().enumerate() {
            if printed >= n_print || print_seen {
                break;
            }
            let base = match dumps[0].get(i) {
                Some(b) => b,
                None => continue,
            };
            let first = base.lines().next().unwrap_or("");
            if !(first.starts_with("stdout") || first.starts_with("stderr")) {
                continue;
            }
            printed += 1;
            let mut outs: Vec<(Vec<u8>, Vec<u8>)> = Vec::new();
            for s in &names {
                let o = Command::new(dumper(s))
                    .arg("--print")
                    .arg(hex(bytes))
                    .env_remove("NO_COLOR")
                    .env_remove("CLICOLOR_FORCE")
                    .env_remove("FORCE_COLOR")
                    .env("TERM", "xterm-256color")
                    .stdin(Stdio::null())
                    .output();
                match o {
                    Ok(o) => outs.push((o.stdout, o.stderr)),
                    Err(_) => outs.push((b"<spawn failed>".to_vec(), Vec::new())),
                }
            }
            for (si, o) in outs.iter().enumerate().skip(1) {
                if *o != outs[0] {
                    print_seen = true;
                    out.push(Violation {
                        sig: format!("feature-set-changes-printed-message/none-vs-{}", names[si]),
                        detail: format!(
                            "print_message to a pipe:\nbuild `none`: stdout {:?} stderr {:?}\nbuild `{}`: stdout {:?} stderr {:?}",
                            String::from_utf8_lossy(&outs[0].0),
                            String::from_utf8_lossy(&outs[0].1),
                            names[si],
                            String::from_utf8_lossy(&o.0),
                            String::from_utf8_lossy(&o.1)
                        ),
                        case: self.describe(bytes),
                        bytes: bytes.clone(),
                    });
                    break;
                }
            }
        }
        *ev = json!({
            "messages_printed_by_every_build_and_compared": printed,
            "evaluations": corpus.len() as u64 * SETS.len() as u64,
            "distinct_nontrivial": nontrivial.len() as u64,
            "samples": samples,
            "generated_cases": corpus.len(),
            "feature_sets": SETS.iter().map(|s| format!("{}: [{}]", s.0, s.1)).collect::<Vec<_>>(),
            "class_histogram_of_the_no_feature_build": classes,
            "cases_on_which_two_builds_differ": differing,
        });
        out
    }
}

pub const SIG_TICKS: &str = "docgen-changes-console-rendering-of-ticked-code-blocks";
