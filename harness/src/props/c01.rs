//! C01 — parsing conforms to the declared grammar (conventional fragment).

use serde_json::{json, Value};

use crate::build::build_level;
use crate::engine::{Ctx, Prop, Verdict};
use crate::gen::*;
use crate::model::{model, MOut};
use crate::outcome::{guarded, run, show_argv, Outcome};
use crate::spec::*;
use crate::un::{fnv_str, Un};
use crate::value::V;

pub struct C01;

pub struct Case {
    pub level: Level,
    pub expected: V,
    pub clean: Vec<Vec<u8>>,
    pub argv: Vec<Vec<u8>>,
    pub mutations: Vec<String>,
    pub stats: RenderStats,
    pub sent: LevelSent,
}

pub fn mutate(u: &mut Un, level: &Level, argv: &mut Vec<Vec<u8>>, log: &mut Vec<String>) {
    let steps = 1 + u.weighted(&[4, 2, 1]);
    let cmd_names: Vec<String> = level
        .body
        .commands(true)
        .iter()
        .flat_map(|c| c.all_names())
        .collect();
    for _ in 0..steps {
        let kind = u.weighted(&[3, 3, 3, 2, 2, 3, 2, 2]);
        let n = argv.len();
        match kind {
            0 => {
                let at = u.below(n + 1);
                let what: &[u8] = if u.bool() { b"--zzz" } else { b"-Z" };
                argv.insert(at, what.to_vec());
                log.push(format!("insert {} at {}", String::from_utf8_lossy(what), at));
            }
            1 if n > 0 => {
                let at = u.below(n);
                let x = argv.remove(at);
                log.push(format!("delete {:?} at {}", String::from_utf8_lossy(&x), at));
            }
            2 if n > 0 => {
                let at = u.below(n);
                let x = argv[at].clone();
                let to = u.below(n + 1);
                log.push(format!(
                    "duplicate {:?} from {} to {}",
                    String::from_utf8_lossy(&x),
                    at,
                    to
                ));
                argv.insert(to, x);
            }
            3 => {
                let at = u.below(n + 1);
                argv.insert(at, b"extra".to_vec());
                log.push(format!("insert word at {}", at));
            }
            4 if n > 0 => {
                let at = u.below(n);
                if argv[at].starts_with(b"-") && argv[at] != b"--" && !argv[at].contains(&b'=') {
                    if u.bool() {
                        argv[at].extend_from_slice(b"=v");
                        log.push(format!("append =v to item {}", at));
                    } else {
                        // an empty attached value is still a value
                        argv[at].push(b'=');
                        log.push(format!("append = to item {}", at));
                    }
                }
            }
            5 if n > 1 => {
                let from = u.below(n);
                let x = argv.remove(from);
                let to = u.below(n);
                log.push(format!(
                    "move {:?} from {} to {}",
                    String::from_utf8_lossy(&x),
                    from,
                    to
                ));
                argv.insert(to, x);
            }
            6 if n > 0 => {
                let at = u.below(n);
                log.push(format!(
                    "corrupt {:?} at {}",
                    String::from_utf8_lossy(&argv[at]),
                    at
                ));
                argv[at] = b"x1".to_vec();
            }
            7 if !cmd_names.is_empty() => {
                let at = u.below(n + 1);
                let name = u.pick(&cmd_names).clone();
                log.push(format!("insert command name {:?} at {}", name, at));
                argv.insert(at, name.into_bytes());
            }
            _ => {}
        }
    }
}

pub fn decode(bytes: &[u8]) -> Case {
    let mut u = Un::new(bytes);
    let mut names = Names::new();
    names.empty_values = true;
    let cfg = ConvCfg {
        usage_fallback: true,
        collect: true,
        ..ConvCfg::default()
    };
    let level = gen_conv_level(&mut u, &mut names, &cfg, 1);
    let (sent, expected) = gen_conv_sentence(&mut u, &mut names, &level);
    let mut stats = RenderStats::default();
    let clean = render_conv(&mut u, &sent, &RenderCfg::default(), &mut stats);
    let mut argv = clean.clone();
    let mut mutations = Vec::new();
    if u.chance(128) {
        mutate(&mut u, &level, &mut argv, &mut mutations);
    }
    Case {
        level,
        expected,
        clean,
        argv,
        mutations,
        stats,
        sent,
    }
}

fn nontrivial(case: &Case) -> bool {
    // >= 3 distinct fields present, >= 1 repeated or valued, and a positional or a command
    fn count(s: &LevelSent, distinct: &mut Vec<usize>, valued: &mut bool, repeated: &mut bool, tail: &mut bool) {
        for o in &s.named {
            if distinct.contains(&o.leaf) {
                *repeated = true;
            } else {
                distinct.push(o.leaf);
            }
            if o.value.is_some() {
                *valued = true;
            }
        }
        if !s.words.is_empty() {
            *tail = true;
        }
        if let Some((_, sub)) = &s.cmd {
            *tail = true;
            count(sub, distinct, valued, repeated, tail);
        }
    }
    let mut d = Vec::new();
    let (mut v, mut r, mut t) = (false, false, false);
    count(&case.sent, &mut d, &mut v, &mut r, &mut t);
    d.len() >= 3 && (v || r) && t
}

impl Prop for C01 {
    fn id(&self) -> &'static str {
        "C01"
    }
    fn cases(&self) -> (u64, u64) {
        (250_000, 3_000_000)
    }
    fn rule(&self) -> &'static str {
        "choice bytes -> conventional definition (<=8 named fields/level of every kind and arity, \
         positional suffix or command tree, depth <=3, unique names incl. multi-byte, aliases) -> \
         sentence built first (expected value known by construction) -> rendered in a random \
         spelling/order (clusters, =, glued, --) -> with probability 1/2 1-3 mutations (insert \
         unknown flag/word/command name, delete, duplicate, move, corrupt, glue =v). Oracle: \
         by-construction value for unmutated lines AND the reference grammar model for every \
         line. Non-trivial: sentence uses >=3 distinct named fields, at least one of them valued \
         or repeated, and has a positional word or a command; distinct by hash of (definition, \
         argv)."
    }
    fn assumptions(&self) -> Vec<&'static str> {
        vec![
            "the reference model (model.rs) is a faithful reading of the documented grammar",
            "vectors the property places outside its quantifier (enclosing level's option right of a command name, multi-letter single-dash item with an undeclared letter) are skipped and counted",
        ]
    }

    fn check(&self, bytes: &[u8], ctx: &mut Ctx) -> Verdict {
        let case = decode(bytes);
        let parser = match guarded(|| {
            let p = build_level(&case.level);
            p.check_invariants(false);
            p
        }) {
            Ok(p) => p,
            Err((at, msg)) => {
                return Verdict::fail(
                    "generator/invariants",
                    format!("check_invariants panicked at {}: {}", at, msg),
                )
            }
        };
        let got = run(&parser, &case.argv);
        ctx.eval(1);
        let m = model(&case.level, &case.argv);

        if case.mutations.is_empty() {
            ctx.class("sentence");
        } else {
            ctx.class("mutant");
        }
        ctx.class(match &m {
            MOut::Value(_) => "model:value",
            MOut::Reject(_) => "model:reject",
            MOut::Help { .. } => "model:help",
            MOut::Version { .. } => "model:version",
            MOut::Outside(_) => "model:outside",
        });
        if case.stats.clusters > 0 {
            ctx.class("uses-cluster");
        }
        if case.stats.equals > 0 {
            ctx.class("uses-equals");
        }
        if case.stats.glued > 0 {
            ctx.class("uses-glued");
        }
        if case.stats.dashdash {
            ctx.class("uses-dashdash");
        }
        if case.stats.moved_named > 0 {
            ctx.class("named-after-positional");
        }
        if sent_depth(&case.sent) >= 2 {
            ctx.class("depth>=2");
        }
        if nontrivial(&case) {
            ctx.nontrivial(fnv_str(&format!("{:?}{:?}", case.level, case.argv)));
            ctx.class("nontrivial");
        }

        if let Outcome::Panic { at, msg } = &got {
            return Verdict::fail(format!("panic@{}", at), format!("panic: {}", msg));
        }

        if case.mutations.is_empty() {
            // by construction
            if got != Outcome::Value(case.expected.clone()) {
                return Verdict::fail(
                    "sentence-not-accepted-with-its-value",
                    format!(
                        "sentence {:?} denotes {} but bpaf returned {}",
                        show_argv(&case.argv),
                        case.expected,
                        got.short()
                    ),
                );
            }
            if m != MOut::Value(case.expected.clone()) {
                return Verdict::fail(
                    "harness/model-disagrees-with-construction",
                    format!("model says {:?}, construction says {}", m, case.expected),
                );
            }
            return Verdict::Pass;
        }

        match (&m, &got) {
            (MOut::Outside(_), _) => Verdict::Skip("outside the quantifier"),
            (MOut::Value(v), Outcome::Value(g)) if v == g => Verdict::Pass,
            (MOut::Value(v), g) => Verdict::fail(
                "sentence-rejected-or-wrong-value",
                format!(
                    "{:?} is a sentence denoting {} but bpaf returned {}",
                    show_argv(&case.argv),
                    v,
                    g.short()
                ),
            ),
            (MOut::Reject(_), Outcome::Stderr(t)) if !t.trim().is_empty() => Verdict::Pass,
            (MOut::Reject(why), g) => Verdict::fail(
                "non-sentence-not-rejected",
                format!(
                    "{:?} is not a sentence ({}) but bpaf returned {}",
                    show_argv(&case.argv),
                    why,
                    g.short()
                ),
            ),
            (MOut::Help { .. } | MOut::Version { .. }, Outcome::Stdout { .. }) => Verdict::Pass,
            (MOut::Help { .. } | MOut::Version { .. }, g) => Verdict::fail(
                "help-request-not-stdout",
                format!("{:?}: {}", show_argv(&case.argv), g.short()),
            ),
        }
    }

    fn describe(&self, bytes: &[u8]) -> Value {
        let case = decode(bytes);
        json!({
            "definition": show_level(&case.level),
            "argv": show_argv(&case.argv),
            "clean_sentence": show_argv(&case.clean),
            "denotes": case.expected.to_string(),
            "mutations": case.mutations,
            "model": format!("{:?}", model(&case.level, &case.argv)),
        })
    }
}
