//! C19 — adjacent groups consume contiguous blocks only.

use serde_json::{json, Value};

use crate::build::build_level;
use crate::engine::{Ctx, Prop, Regression, Verdict};
use crate::gen::*;
use crate::outcome::{guarded, run, show_argv, Outcome};
use crate::spec::*;
use crate::un::{fnv_str, Un};
use crate::value::V;

pub struct C19;

#[derive(Clone, Debug, PartialEq, Eq)]
pub enum GKind {
    /// req_flag lead + k positionals
    FlagPos(usize),
    /// argument lead + k positionals
    ArgPos(usize),
    /// req_flag lead + named arguments; bool = last member optional
    FlagArgs(usize, bool),
    /// chain of adjacent commands
    Commands,
}

#[derive(Clone, Copy, Debug, PartialEq, Eq)]
pub enum GWrap {
    Bare,
    Optional,
    Many,
}

/// one rendered item with what it is
#[derive(Clone, Debug)]
pub struct Item {
    pub bytes: Vec<u8>,
    /// block number this item was generated for (None: top level)
    pub block: Option<usize>,
    pub foreign: bool,
}

pub struct Case {
    pub level: Level,
    pub kind: GKind,
    pub wrap: GWrap,
    pub items: Vec<Item>,
    /// expected value when the line is well formed, None: must fail
    pub expected: Option<V>,
    pub mutation: Option<&'static str>,
    pub n_blocks: usize,
    pub between: bool,
}

fn sarg(u: &mut Un, names: &mut Names) -> NamedSpec {
    gen_named_leaf(
        u,
        names,
        NamedKind::Arg {
            ty: Ty::Str,
            metavar: "V".into(),
            adjacent: false,
        },
    )
}

fn spos(names: &mut Names, mv: &str) -> PosSpec {
    PosSpec {
        id: names.id(),
        metavar: mv.into(),
        ty: Ty::Str,
        help: None,
        strict: Strictness::Unrestricted,
    }
}

fn name_item(u: &mut Un, n: &NamedSpec) -> Vec<u8> {
    match pick_alias(u, n) {
        Alias::Short(c) => format!("-{}", c).into_bytes(),
        Alias::Long(l) => format!("--{}", l).into_bytes(),
    }
}

fn arg_items(u: &mut Un, n: &NamedSpec, tok: &str) -> Vec<Vec<u8>> {
    let name = name_item(u, n);
    // `-xVALUE`: a short name with its value glued on
    if !name.starts_with(b"--") && u.chance(70) {
        let mut x = name;
        x.extend_from_slice(tok.as_bytes());
        return vec![x];
    }
    if u.bool() {
        let mut x = name;
        x.push(b'=');
        x.extend_from_slice(tok.as_bytes());
        vec![x]
    } else {
        vec![name, tok.as_bytes().to_vec()]
    }
}

pub fn decode(bytes: &[u8]) -> Case {
    let mut u = Un::new(bytes);
    let mut names = Names::new();
    let kind = match u.weighted(&[3, 2, 3, 2]) {
        0 => GKind::FlagPos(1 + u.below(3)),
        1 => GKind::ArgPos(1 + u.below(2)),
        2 => GKind::FlagArgs(1 + u.below(2), u.bool()),
        _ => GKind::Commands,
    };
    let wrap = match kind {
        GKind::Commands => GWrap::Many,
        _ => *u.pick(&[GWrap::Many, GWrap::Many, GWrap::Optional, GWrap::Bare]),
    };
    // top level others
    let n_other = u.below(5);
    let mut others: Vec<(NamedSpec, u8)> = Vec::new(); // 0 switch, 1 optional arg, 2 many arg
    for _ in 0..n_other {
        let k = u.below(3) as u8;
        let n = if k == 0 {
            gen_named_leaf(&mut u, &mut names, NamedKind::Switch)
        } else {
            sarg(&mut u, &mut names)
        };
        others.push((n, k));
    }
    let mutation_kind = u.weighted(&[5, 2, 2, 2, 2]);
    // a word after a shortened block, or before a displaced lead, would simply be taken as a
    // member or as a trailing positional: those mutations are only meaningful without trailing
    // positionals
    let n_tail = if kind == GKind::Commands || matches!(mutation_kind, 1 | 4) {
        0
    } else {
        u.below(3)
    };
    let tail_many = n_tail > 0 && u.bool();

    // group definition
    let lead_flag = gen_named_leaf(&mut u, &mut names, NamedKind::ReqFlag);
    let lead_arg = sarg(&mut u, &mut names);
    let mut member_args: Vec<NamedSpec> = Vec::new();
    let mut cmds: Vec<(CmdSpec, usize)> = Vec::new(); // command, number of positionals it takes
    let group_node: Node = match &kind {
        GKind::FlagPos(k) => {
            let mut m = vec![Node::Named(lead_flag.clone())];
            for i in 0..*k {
                m.push(Node::Pos(spos(&mut names, &format!("P{}", i))));
            }
            Node::Adjacent(m)
        }
        GKind::ArgPos(k) => {
            let mut m = vec![Node::Named(lead_arg.clone())];
            for i in 0..*k {
                m.push(Node::Pos(spos(&mut names, &format!("P{}", i))));
            }
            Node::Adjacent(m)
        }
        GKind::FlagArgs(k, last_opt) => {
            let mut m = vec![Node::Named(lead_flag.clone())];
            for i in 0..*k {
                let a = sarg(&mut u, &mut names);
                member_args.push(a.clone());
                if *last_opt && i + 1 == *k {
                    m.push(Node::Optional {
                        n: Node::Named(a).b(),
                        catch: false,
                    });
                } else {
                    m.push(Node::Named(a));
                }
            }
            Node::Adjacent(m)
        }
        GKind::Commands => {
            let n = 2 + u.below(2);
            let mut alts = Vec::new();
            for _ in 0..n {
                let name = names.cmd(&mut u);
                let npos = u.below(3);
                let mut f: Vec<Node> = Vec::new();
                let own = gen_named_leaf(&mut u, &mut names, NamedKind::Switch);
                f.push(Node::Named(own));
                for i in 0..npos {
                    f.push(Node::Pos(spos(&mut names, &format!("C{}", i))));
                }
                let c = CmdSpec {
                    name,
                    shorts: Vec::new(),
                    longs: Vec::new(),
                    help: None,
                    adjacent: true,
                    level: Level::simple(Node::Seq(f)),
                };
                cmds.push((c.clone(), npos));
                alts.push(Node::Cmd(Box::new(c)));
            }
            Node::Alt(alts)
        }
    };
    let wrapped = match wrap {
        GWrap::Bare => group_node,
        GWrap::Optional => Node::Optional {
            n: group_node.b(),
            catch: false,
        },
        GWrap::Many => Node::Many {
            n: group_node.b(),
            catch: false,
        },
    };
    let mut fields: Vec<Node> = Vec::new();
    for (n, k) in &others {
        fields.push(match k {
            0 => Node::Named(n.clone()),
            1 => Node::Optional {
                n: Node::Named(n.clone()).b(),
                catch: false,
            },
            _ => Node::Many {
                n: Node::Named(n.clone()).b(),
                catch: false,
            },
        });
    }
    fields.push(wrapped);
    for i in 0..n_tail {
        let p = Node::Pos(spos(&mut names, &format!("T{}", i)));
        if tail_many && i + 1 == n_tail {
            fields.push(Node::Many {
                n: p.b(),
                catch: false,
            });
        } else {
            fields.push(p);
        }
    }
    let level = Level::simple(Node::Seq(fields));

    // ---- the line -------------------------------------------------------------------------
    let n_blocks = match wrap {
        GWrap::Bare => 1,
        GWrap::Optional => u.below(2),
        GWrap::Many => u.weighted(&[1, 3, 3, 2]),
    };
    let mut tok = 0usize;
    let mut fresh = |p: &str| {
        tok += 1;
        format!("{}{}", p, tok)
    };
    // units: each is a list of items that stay together
    let mut units: Vec<(Vec<Item>, Option<usize>)> = Vec::new();
    let mut block_values: Vec<V> = Vec::new();
    let mut mutation: Option<&'static str> = None;
    let mutate_block = if n_blocks > 0 { u.below(n_blocks) } else { 0 };
    let mut must_fail = false;
    for b in 0..n_blocks {
        let mut items: Vec<Vec<u8>> = Vec::new();
        let mut vals: Vec<V> = Vec::new();
        // member units (each a vec of items) after the lead
        let mut members: Vec<Vec<Vec<u8>>> = Vec::new();
        let mut optional_last = false;
        match &kind {
            GKind::FlagPos(k) => {
                items.push(name_item(&mut u, &lead_flag));
                vals.push(V::Unit);
                for _ in 0..*k {
                    let t = fresh("g");
                    vals.push(V::Str(t.clone()));
                    members.push(vec![t.into_bytes()]);
                }
            }
            GKind::ArgPos(k) => {
                let t = fresh("g");
                vals.push(V::Str(t.clone()));
                items.extend(arg_items(&mut u, &lead_arg, &t));
                for _ in 0..*k {
                    let t = fresh("g");
                    vals.push(V::Str(t.clone()));
                    members.push(vec![t.into_bytes()]);
                }
            }
            GKind::FlagArgs(_, last_opt) => {
                items.push(name_item(&mut u, &lead_flag));
                vals.push(V::Unit);
                optional_last = *last_opt;
                for a in &member_args {
                    let t = fresh("g");
                    vals.push(V::Str(t.clone()));
                    members.push(arg_items(&mut u, a, &t));
                }
            }
            GKind::Commands => {
                let ci = u.below(cmds.len());
                let (c, npos) = &cmds[ci];
                items.push(c.name.as_bytes().to_vec());
                let own = c.level.body.named_leaves(false)[0].clone();
                let with_flag = u.bool();
                let mut inner = vec![V::Bool(with_flag)];
                if with_flag {
                    members.push(vec![name_item(&mut u, &own)]);
                }
                for _ in 0..*npos {
                    let t = fresh("c");
                    inner.push(V::Str(t.clone()));
                    members.push(vec![t.into_bytes()]);
                }
                vals = vec![V::Alt(
                    ci,
                    Box::new(V::Cmd(c.name.clone(), Box::new(V::Tup(inner)))),
                )];
            }
        }
        let this_mutated = b == mutate_block;
        // member level mutations
        if this_mutated && !members.is_empty() {
            match mutation_kind {
                1 => {
                    // cut the block short: drop the last member
                    // after a shortened command block the next command name would be taken as the
                    // missing word: only the last block of a chain is shortened
                    let cmd_ok = b + 1 == n_blocks
                        && matches!(members.last(), Some(m) if !m[0].starts_with(b"-"));
                    if kind != GKind::Commands || cmd_ok {
                        members.pop();
                        mutation = Some("cut-short");
                        if optional_last {
                            if let GKind::FlagArgs(..) = kind {
                                let n = vals.len();
                                vals[n - 1] = V::none();
                            }
                        } else {
                            must_fail = true;
                        }
                    }
                }
                2 => {
                    // reorder named members (allowed)
                    if let GKind::FlagArgs(..) = kind {
                        if members.len() >= 2 {
                            members.reverse();
                            mutation = Some("members-reordered");
                        }
                    }
                }
                _ => {}
            }
        }
        if let (GKind::FlagArgs(_, true), false) = (&kind, mutation == Some("cut-short") && this_mutated) {
            // optional last member present: wrap its value
            let n = vals.len();
            if let V::Str(_) = &vals[n - 1] {
                let v = vals[n - 1].clone();
                vals[n - 1] = V::some(v);
            }
        }
        let mut its: Vec<Item> = items
            .into_iter()
            .map(|bytes| Item {
                bytes,
                block: Some(b),
                foreign: false,
            })
            .collect();
        let split_at = if this_mutated && mutation_kind == 3 && !members.is_empty() {
            Some(u.below(members.len()))
        } else {
            None
        };
        for (mi, m) in members.into_iter().enumerate() {
            if split_at == Some(mi) {
                // a foreign named item inside the block
                if let Some((n, 0)) = others.iter().find(|(_, k)| *k == 0).map(|(n, k)| (n, *k)) {
                    its.push(Item {
                        bytes: name_item(&mut u, n),
                        block: None,
                        foreign: true,
                    });
                    mutation = Some("split-by-foreign-item");
                    must_fail = true;
                }
            }
            for bytes in m {
                its.push(Item {
                    bytes,
                    block: Some(b),
                    foreign: false,
                });
            }
        }
        if this_mutated && mutation_kind == 4 && its.len() >= 2 && kind != GKind::Commands {
            // the lead is not the first item of the block
            let lead_len = match kind {
                GKind::ArgPos(_) => {
                    if its[0].bytes.contains(&b'=') {
                        1
                    } else {
                        2
                    }
                }
                _ => 1,
            };
            if its.len() > lead_len {
                let lead: Vec<Item> = its.drain(..lead_len).collect();
                let at = 1 + u.below(its.len());
                // keep detached name/value pairs together: only move behind whole members
                let ok = !(at < its.len() && !its[at].bytes.starts_with(b"-") && its[at - 1].bytes.starts_with(b"-") && !its[at - 1].bytes.contains(&b'='));
                if ok {
                    for (k, l) in lead.into_iter().enumerate() {
                        its.insert(at + k, l);
                    }
                    mutation = Some("lead-not-first");
                    must_fail = true;
                } else {
                    for (k, l) in lead.into_iter().enumerate() {
                        its.insert(k, l);
                    }
                }
            }
        }
        units.push((its, Some(b)));
        block_values.push(if kind == GKind::Commands {
            vals.remove(0)
        } else {
            V::Tup(vals)
        });
    }
    // the split mutation consumed a foreign switch occurrence: that switch is then "given"
    let foreign_used: Vec<Vec<u8>> = units
        .iter()
        .flat_map(|(its, _)| its.iter().filter(|i| i.foreign).map(|i| i.bytes.clone()))
        .collect();
    // top level others
    let mut other_vals: Vec<V> = Vec::new();
    for (n, k) in &others {
        match k {
            0 => {
                let used_as_foreign = foreign_used.iter().any(|f| {
                    n.shorts.iter().any(|c| format!("-{}", c).as_bytes() == f.as_slice())
                        || n.longs.iter().any(|l| format!("--{}", l).as_bytes() == f.as_slice())
                });
                let present = !used_as_foreign && u.bool();
                if present {
                    units.push((
                        vec![Item {
                            bytes: name_item(&mut u, n),
                            block: None,
                            foreign: false,
                        }],
                        None,
                    ));
                }
                other_vals.push(V::Bool(present || used_as_foreign));
            }
            1 => {
                if u.bool() {
                    let t = fresh("o");
                    units.push((
                        arg_items(&mut u, n, &t)
                            .into_iter()
                            .map(|bytes| Item {
                                bytes,
                                block: None,
                                foreign: false,
                            })
                            .collect(),
                        None,
                    ));
                    other_vals.push(V::some(V::Str(t)));
                } else {
                    other_vals.push(V::none());
                }
            }
            _ => {
                let c = u.below(3);
                let mut xs = Vec::new();
                for _ in 0..c {
                    let t = fresh("o");
                    units.push((
                        arg_items(&mut u, n, &t)
                            .into_iter()
                            .map(|bytes| Item {
                                bytes,
                                block: None,
                                foreign: false,
                            })
                            .collect(),
                        None,
                    ));
                    xs.push(V::Str(t));
                }
                other_vals.push(V::List(xs));
            }
        }
    }
    // shuffle units keeping the relative order of blocks and of occurrences of the same
    // `many` argument (units of the same kind keep their order: simple stable scheme)
    let perm = u.permutation(units.len());
    let mut order: Vec<usize> = perm;
    // restore relative order among blocks
    let block_slots: Vec<usize> = order
        .iter()
        .enumerate()
        .filter(|(_, i)| units[**i].1.is_some())
        .map(|(s, _)| s)
        .collect();
    let mut blocks_in_order: Vec<usize> = (0..units.len()).filter(|i| units[*i].1.is_some()).collect();
    blocks_in_order.sort();
    for (s, b) in block_slots.iter().zip(blocks_in_order.iter()) {
        order[*s] = *b;
    }
    // and among the non-block units (occurrences of the same many argument)
    let other_slots: Vec<usize> = order
        .iter()
        .enumerate()
        .filter(|(_, i)| units[**i].1.is_none())
        .map(|(s, _)| s)
        .collect();
    let mut others_in_order: Vec<usize> = (0..units.len()).filter(|i| units[*i].1.is_none()).collect();
    others_in_order.sort();
    for (s, b) in other_slots.iter().zip(others_in_order.iter()) {
        order[*s] = *b;
    }
    // trailing positional words: placed after every block (top level words before a block with
    // positional members would be fine too, but "trailing positionals after them" is the claim)
    let mut tail_vals: Vec<V> = Vec::new();
    let mut tail_items: Vec<Item> = Vec::new();
    for i in 0..n_tail {
        if tail_many && i + 1 == n_tail {
            let c = u.below(3);
            let mut xs = Vec::new();
            for _ in 0..c {
                let t = fresh("t");
                tail_items.push(Item {
                    bytes: t.clone().into_bytes(),
                    block: None,
                    foreign: false,
                });
                xs.push(V::Str(t));
            }
            tail_vals.push(V::List(xs));
        } else {
            let t = fresh("t");
            tail_items.push(Item {
                bytes: t.clone().into_bytes(),
                block: None,
                foreign: false,
            });
            tail_vals.push(V::Str(t));
        }
    }
    let mut items: Vec<Item> = Vec::new();
    let mut between = false;
    let mut seen_block = false;
    for i in &order {
        if units[*i].1.is_some() {
            seen_block = true;
        } else if seen_block && blocks_in_order.iter().any(|b| order.iter().position(|x| x == b) > order.iter().position(|x| x == i)) {
            between = true;
        }
        items.extend(units[*i].0.iter().cloned());
    }
    // the first top-level word may also stand in front of everything: it is not part of any block
    // (blocks start at their lead) and stays the first word
    if !tail_items.is_empty() && u.chance(70) {
        let first = tail_items.remove(0);
        items.insert(0, first);
    }
    items.extend(tail_items);

    let group_value = match wrap {
        GWrap::Bare => block_values.first().cloned().unwrap_or(V::Unit),
        GWrap::Optional => match block_values.first() {
            Some(v) => V::some(v.clone()),
            None => V::none(),
        },
        GWrap::Many => V::List(block_values.clone()),
    };
    let mut all = other_vals;
    all.push(group_value);
    all.extend(tail_vals);
    let expected = if must_fail { None } else { Some(V::Tup(all)) };
    Case {
        level,
        kind,
        wrap,
        items,
        expected,
        mutation,
        n_blocks,
        between,
    }
}

/// positions (item indices) of a token
fn token_pos(items: &[Item], tok: &[u8]) -> Option<usize> {
    items.iter().position(|i| {
        i.bytes == tok
            || (i.bytes.len() > tok.len()
                && i.bytes.ends_with(tok)
                && i.bytes[i.bytes.len() - tok.len() - 1] == b'=')
            // `-xTOKEN`: one dash, one character, the token
            || (i.bytes.starts_with(b"-")
                && !i.bytes.starts_with(b"--")
                && i.bytes.ends_with(tok)
                && std::str::from_utf8(&i.bytes[1..i.bytes.len() - tok.len()])
                    .map_or(false, |s| s.chars().count() == 1))
    })
}


// ---------------------------------------------------------------------------------------------
// second family: a group led by a positional - `construct!(key, value).adjacent().many()` with
// strict members: pairs of words right of `--`
// ---------------------------------------------------------------------------------------------

pub struct PairCase {
    pub level: Level,
    pub argv: Vec<Vec<u8>>,
    pub words: Vec<Vec<u8>>,
}

pub fn decode_pairs(bytes: &[u8]) -> PairCase {
    let mut u = Un::new(bytes);
    let mut names = Names::new();
    let mut fields: Vec<Node> = Vec::new();
    let mut argv: Vec<Vec<u8>> = Vec::new();
    for _ in 0..u.below(3) {
        let n = gen_named_leaf(&mut u, &mut names, NamedKind::Switch);
        if u.bool() {
            argv.push(name_item(&mut u, &n));
        }
        fields.push(Node::Named(n));
    }
    let strict = if u.chance(200) { Strictness::Strict } else { Strictness::Unrestricted };
    let mut key = spos(&mut names, "KEY");
    key.strict = strict;
    let mut val = spos(&mut names, "VAL");
    val.strict = strict;
    fields.push(Node::Many {
        n: Node::Adjacent(vec![Node::Pos(key), Node::Pos(val)]).b(),
        catch: false,
    });
    let level = Level::simple(Node::Seq(fields));
    argv.push(b"--".to_vec());
    let k = u.below(4);
    let odd = u.chance(50);
    let mut words = Vec::new();
    for i in 0..(2 * k + usize::from(odd)) {
        let w = if u.chance(60) {
            (*u.pick(&[&b"-v"[..], &b"--"[..], &b"--x"[..]])).to_vec()
        } else {
            format!("w{}", i).into_bytes()
        };
        words.push(w);
    }
    argv.extend(words.iter().cloned());
    PairCase { level, argv, words }
}

pub fn check_pairs(bytes: &[u8], ctx: &mut Ctx) -> Verdict {
    let case = decode_pairs(bytes);
    let parser = match guarded(|| {
        let p = build_level(&case.level);
        p.check_invariants(false);
        p
    }) {
        Ok(p) => p,
        Err((at, msg)) => {
            return Verdict::fail(
                "generator/invariants",
                format!(
                    "{}: check_invariants panicked at {}: {}",
                    show_level(&case.level),
                    at,
                    msg
                ),
            )
        }
    };
    let out = run(&parser, &case.argv);
    ctx.eval(1);
    ctx.class("family:pairs-of-positionals");
    if case.words.len() >= 2 {
        ctx.nontrivial(fnv_str(&format!("{:?}{:?}", case.level, case.argv)));
    }
    let even = case.words.len() % 2 == 0;
    match (&out, even) {
        (Outcome::Panic { at, msg }, _) => Verdict::fail(format!("panic@{}", at), msg.clone()),
        (Outcome::Value(v), true) => {
            let mut leaves = Vec::new();
            v.leaves(&mut leaves);
            if leaves == case.words {
                Verdict::Pass
            } else {
                Verdict::fail(
                    "pairs/words-lost-or-reordered",
                    format!("{:?} -> {}", show_argv(&case.argv), v),
                )
            }
        }
        (Outcome::Stderr(_), false) => Verdict::Pass,
        (other, _) => Verdict::fail(
            if even { "pairs/well-formed-pairs-rejected" } else { "pairs/half-a-pair-accepted" },
            format!("{} on {:?} -> {}", show_level(&case.level), show_argv(&case.argv), other.short()),
        ),
    }
}


// ---------------------------------------------------------------------------------------------
// third family: blocks inside blocks - an adjacent command (under many) whose body is itself an
// adjacent group (`draw --point X Y`) or a regular subcommand (`remote add NAME [--url URL]`),
// next to switches of the enclosing level. An inner block must stay inside the outer one: an
// enclosing switch typed inside a block splits it.
// ---------------------------------------------------------------------------------------------

pub struct NestedCase {
    pub level: Level,
    pub argv: Vec<Vec<u8>>,
    pub tokens: Vec<Vec<u8>>,
    pub n_blocks: usize,
    pub first_present: bool,
    pub last_present: Option<bool>,
    pub split: bool,
    pub inner_is_command: bool,
}

pub fn decode_nested(bytes: &[u8]) -> NestedCase {
    let mut u = Un::new(bytes);
    let mut names = Names::new();
    let first = gen_named_leaf(&mut u, &mut names, NamedKind::Switch);
    let last = if u.bool() {
        Some(gen_named_leaf(&mut u, &mut names, NamedKind::Switch))
    } else {
        None
    };
    let outer_name = names.cmd(&mut u);
    let inner_is_command = u.bool();
    let lead = gen_named_leaf(&mut u, &mut names, NamedKind::ReqFlag);
    let url = sarg(&mut u, &mut names);
    let inner_name = names.cmd(&mut u);
    let n_pos = 1 + u.below(2);
    let body = if inner_is_command {
        // positionals go last in their structure
        let mut f = vec![Node::Optional {
            n: Node::Named(url.clone()).b(),
            catch: false,
        }];
        for i in 0..n_pos {
            f.push(Node::Pos(spos(&mut names, &format!("N{}", i))));
        }
        Node::Cmd(Box::new(CmdSpec {
            name: inner_name.clone(),
            shorts: Vec::new(),
            longs: Vec::new(),
            help: None,
            adjacent: false,
            level: Level::simple(Node::Seq(f)),
        }))
    } else {
        let mut m = vec![Node::Named(lead.clone())];
        for i in 0..n_pos {
            m.push(Node::Pos(spos(&mut names, &format!("P{}", i))));
        }
        Node::Adjacent(m)
    };
    let outer = Node::Cmd(Box::new(CmdSpec {
        name: outer_name.clone(),
        shorts: Vec::new(),
        longs: Vec::new(),
        help: None,
        adjacent: true,
        level: Level::simple(Node::Seq(vec![body])),
    }));
    // commands go last in their structure: both switches are declared in front of the chain
    let mut fields = vec![Node::Named(first.clone())];
    if let Some(l) = &last {
        fields.push(Node::Named(l.clone()));
    }
    fields.push(Node::Many {
        n: outer.b(),
        catch: false,
    });
    let level = Level::simple(Node::Seq(fields));

    // the line
    let n_blocks = 1 + u.below(2);
    let mut tokens: Vec<Vec<u8>> = Vec::new();
    let mut blocks: Vec<Vec<Vec<u8>>> = Vec::new();
    let mut tok = 0;
    for _ in 0..n_blocks {
        let mut b = vec![outer_name.clone().into_bytes()];
        if inner_is_command {
            b.push(inner_name.clone().into_bytes());
        } else {
            b.push(name_item(&mut u, &lead));
        }
        // in the value the optional argument comes first (declaration order), on the line last
        let url_tok = if inner_is_command && u.chance(170) {
            tok += 1;
            let t = format!("u{}", tok);
            tokens.push(t.clone().into_bytes());
            Some(t)
        } else {
            None
        };
        for _ in 0..n_pos {
            tok += 1;
            let t = format!("w{}", tok).into_bytes();
            tokens.push(t.clone());
            b.push(t);
        }
        if let Some(t) = url_tok {
            b.extend(arg_items(&mut u, &url, &t));
        }
        blocks.push(b);
    }
    let first_present = u.chance(200);
    let split = first_present && u.chance(128);
    // gaps: 0 = in front of the first block .. n_blocks = behind the last one
    let first_gap = u.below(n_blocks + 1);
    let split_block = u.below(n_blocks);
    let split_at = 1 + u.below(blocks[split_block].len() - 1);
    let last_present = last.as_ref().map(|_| u.bool());
    let last_gap = u.below(n_blocks + 1);
    let last_before_first = u.bool();
    let mut argv: Vec<Vec<u8>> = Vec::new();
    let first_item = name_item(&mut u, &first);
    let last_item = last.as_ref().map(|l| name_item(&mut u, l));
    for gap in 0..=n_blocks {
        let mut here: Vec<Vec<u8>> = Vec::new();
        if first_present && !split && first_gap == gap {
            here.push(first_item.clone());
        }
        if last_present == Some(true) && last_gap == gap {
            let it = last_item.clone().unwrap();
            if last_before_first {
                here.insert(0, it);
            } else {
                here.push(it);
            }
        }
        argv.extend(here);
        if gap < n_blocks {
            for (j, it) in blocks[gap].iter().enumerate() {
                if split && gap == split_block && j == split_at {
                    argv.push(first_item.clone());
                }
                argv.push(it.clone());
            }
        }
    }
    NestedCase {
        level,
        argv,
        tokens,
        n_blocks,
        first_present,
        last_present,
        split,
        inner_is_command,
    }
}

pub fn check_nested(bytes: &[u8], ctx: &mut Ctx) -> Verdict {
    let case = decode_nested(bytes);
    let parser = match guarded(|| {
        let p = build_level(&case.level);
        p.check_invariants(false);
        p
    }) {
        Ok(p) => p,
        Err((at, msg)) => {
            return Verdict::fail(
                "generator/invariants",
                format!("{}: check_invariants panicked at {}: {}", show_level(&case.level), at, msg),
            )
        }
    };
    let out = run(&parser, &case.argv);
    ctx.eval(1);
    ctx.class(if case.inner_is_command {
        "family:command-inside-adjacent-command"
    } else {
        "family:group-inside-adjacent-command"
    });
    if case.split {
        ctx.class("nested:enclosing-switch-inside-a-block");
    }
    if case.split || (case.n_blocks >= 2 && (case.first_present || case.last_present == Some(true))) {
        ctx.nontrivial(fnv_str(&format!("{:?}{:?}", case.level, case.argv)));
    }
    let describe = |what: &str| format!("{} on {:?} -> {}", show_level(&case.level), show_argv(&case.argv), what);
    match (&out, case.split) {
        (Outcome::Panic { at, msg }, _) => Verdict::fail(format!("panic@{}", at), msg.clone()),
        (Outcome::Stderr(_), true) => Verdict::Pass,
        (other, true) => Verdict::fail("nested/split-block-accepted", describe(&other.short())),
        (Outcome::Value(v), false) => {
            let mut leaves = Vec::new();
            v.leaves(&mut leaves);
            let shape_ok = match v {
                V::Tup(top) => {
                    top.first() == Some(&V::Bool(case.first_present))
                        && matches!(top.last(), Some(V::List(xs)) if xs.len() == case.n_blocks)
                        && case.last_present.map_or(true, |p| top.get(1) == Some(&V::Bool(p)))
                }
                _ => false,
            };
            if leaves == case.tokens && shape_ok {
                Verdict::Pass
            } else {
                Verdict::fail("nested/wrong-value", describe(&v.to_string()))
            }
        }
        (other, false) => Verdict::fail("nested/well-formed-blocks-rejected", describe(&other.short())),
    }
}

impl Prop for C19 {
    fn id(&self) -> &'static str {
        "C19"
    }
    fn cases(&self) -> (u64, u64) {
        (400_000, 2_000_000)
    }
    fn rule(&self) -> &'static str {
        "choice bytes -> an adjacent group (flag + 1-3 positionals, argument + 1-2 positionals, flag \
         + 1-2 named arguments with an optional last member, or a chain of adjacent subcommands) \
         bare/optional/many, among 0-4 other named items and 0-2 trailing positionals -> 0-3 blocks \
         with unique tokens, other options placed before/between/after the blocks in a random \
         order, trailing words at the end; in ~1/2 of the cases one block is mutated: cut short, \
         named members reordered (allowed), split by a foreign named item, lead not first. Oracle: \
         by construction - one value per block in command line order plus the ordinary values of \
         the other items; split / short (required member) / lead-not-first blocks must fail on \
         stderr; and on EVERY accepted line the tokens of each returned group value occupy one \
         contiguous run of items that starts at the group's leading item. Two smaller families \
         (one case in sixteen each): pairs of strict positionals right of `--`; and blocks inside \
         blocks - an adjacent command under many whose body is an adjacent group or a regular \
         subcommand with an optional argument, next to switches of the enclosing level: well \
         formed lines yield one value per block with exactly the tokens written, an enclosing \
         switch typed inside a block must fail. Non-trivial: >=2 blocks \
         with another option between them, or a mutated block; distinct by hash of (definition, \
         argv)."
    }
    fn check(&self, bytes: &[u8], ctx: &mut Ctx) -> Verdict {
        // one case in sixteen belongs to the second family
        if bytes.first().map_or(false, |b| b % 16 == 15) {
            return check_pairs(&bytes[1..], ctx);
        }
        // and one in sixteen to the third
        if bytes.first().map_or(false, |b| b % 16 == 14) {
            return check_nested(&bytes[1..], ctx);
        }
        let case = decode(bytes);
        let parser = match guarded(|| {
            let p = build_level(&case.level);
            p.check_invariants(false);
            p
        }) {
            Ok(p) => p,
            Err((at, msg)) => {
                return Verdict::fail(
                    "generator/invariants",
                    format!("check_invariants panicked at {}: {}", at, msg),
                )
            }
        };
        let argv: Vec<Vec<u8>> = case.items.iter().map(|i| i.bytes.clone()).collect();
        let got = run(&parser, &argv);
        ctx.eval(1);
        if let Outcome::Panic { at, msg } = &got {
            return Verdict::fail(format!("panic@{}", at), msg.clone());
        }
        ctx.class(&format!("kind:{}", match case.kind {
            GKind::FlagPos(_) => "flag+positionals",
            GKind::ArgPos(_) => "argument+positionals",
            GKind::FlagArgs(..) => "flag+arguments",
            GKind::Commands => "adjacent-commands",
        }));
        ctx.class(&format!("blocks:{}", case.n_blocks));
        if let Some(m) = case.mutation {
            ctx.class(&format!("mutation:{}", m));
        }
        if (case.n_blocks >= 2 && case.between) || case.mutation.is_some() {
            ctx.nontrivial(fnv_str(&format!("{:?}{:?}", case.level, argv)));
        }

        // validity on every accepted line: contiguity of each group value
        if let Outcome::Value(V::Tup(fields)) = &got {
            for f in fields {
                let groups: Vec<&V> = match f {
                    V::List(xs) => xs.iter().collect(),
                    V::Opt(Some(x)) => vec![&**x],
                    other => vec![other],
                };
                for g in groups {
                    let is_group = matches!(g, V::Tup(_)) || matches!(g, V::Alt(_, _));
                    if !is_group {
                        continue;
                    }
                    let mut leaves = Vec::new();
                    g.leaves(&mut leaves);
                    let mut pos: Vec<usize> = Vec::new();
                    for l in &leaves {
                        match token_pos(&case.items, l) {
                            Some(p) => {
                                pos.push(p);
                                // a detached value brings its name along
                                if case.items[p].bytes == *l
                                    && p > 0
                                    && case.items[p - 1].bytes.starts_with(b"-")
                                    && !case.items[p - 1].bytes.contains(&b'=')
                                    && !matches!(case.kind, GKind::FlagPos(_) | GKind::Commands)
                                {
                                    // only if that name is an argument of the group; names of
                                    // flags (the lead) are handled below
                                    pos.push(p - 1);
                                }
                            }
                            None => {
                                return Verdict::fail(
                                    "group-value-token-not-on-the-line",
                                    format!("{:?}: {}", show_argv(&argv), g),
                                )
                            }
                        }
                    }
                    if pos.is_empty() {
                        continue;
                    }
                    pos.sort();
                    pos.dedup();
                    if matches!(case.kind, GKind::Commands) {
                        continue;
                    }
                    let lo = pos[0];
                    let hi = *pos.last().unwrap();
                    // the items of one value form one run without gaps ...
                    if hi - lo + 1 != pos.len() {
                        return Verdict::fail(
                            "group-value-pieced-together",
                            format!(
                                "{:?}: the items of group value {} are not neighbours (positions {:?})",
                                show_argv(&argv),
                                g,
                                pos
                            ),
                        );
                    }
                    // ... that starts at the leading item
                    let lead_ok = match case.kind {
                        GKind::ArgPos(_) => true, // its name/value are part of the run
                        _ => lo > 0 && case.items[lo - 1].block.is_some() && case.items[lo - 1].bytes.starts_with(b"-"),
                    };
                    if !lead_ok {
                        return Verdict::fail(
                            "group-value-not-starting-at-its-lead",
                            format!("{:?}: {} (positions {:?})", show_argv(&argv), g, pos),
                        );
                    }
                }
            }
        }

        match (&case.expected, &got) {
            (Some(v), Outcome::Value(g)) if v == g => Verdict::Pass,
            (None, Outcome::Stderr(t)) if !t.trim().is_empty() => Verdict::Pass,
            (Some(v), g) => Verdict::fail(
                format!(
                    "well-formed-blocks-not-parsed/{:?}/{}",
                    case.wrap,
                    case.mutation.unwrap_or("none")
                ),
                format!(
                    "{:?} should give {} but bpaf returned {}",
                    show_argv(&argv),
                    v,
                    g.short()
                ),
            ),
            (None, g) => Verdict::fail(
                format!("broken-block-accepted/{}", case.mutation.unwrap_or("none")),
                format!(
                    "{:?} has a broken block ({:?}) and must fail, bpaf returned {}",
                    show_argv(&argv),
                    case.mutation,
                    g.short()
                ),
            ),
        }
    }
    fn regressions(&self) -> Vec<Regression> {
        vec![Regression {
            name: "adjacent-command-chain-drops-items-after-an-option",
            run: reg_chain_drops,
        }]
    }
    fn describe(&self, bytes: &[u8]) -> Value {
        if bytes.first().map_or(false, |b| b % 16 == 15) {
            let c = decode_pairs(&bytes[1..]);
            return json!({
                "family": "adjacent pairs of positionals right of --",
                "definition": show_level(&c.level),
                "argv": show_argv(&c.argv),
            });
        }
        if bytes.first().map_or(false, |b| b % 16 == 14) {
            let c = decode_nested(&bytes[1..]);
            return json!({
                "family": "blocks inside the block of an adjacent command",
                "definition": show_level(&c.level),
                "argv": show_argv(&c.argv),
                "enclosing switch inside a block (must fail)": c.split,
            });
        }
        let case = decode(bytes);
        let argv: Vec<Vec<u8>> = case.items.iter().map(|i| i.bytes.clone()).collect();
        json!({
            "definition": show_level(&case.level),
            "argv": show_argv(&argv),
            "mutation": case.mutation,
            "expected": case.expected.as_ref().map(|v| v.to_string()),
        })
    }
}

/// `run run --alpha run`: the third block (after a top level option) must not vanish
fn reg_chain_drops(ctx: &mut Ctx) -> Verdict {
    use crate::mk::*;
    let mk = |name: &str, flag: &str| {
        let mut c = cmd(name, lvl(seq(vec![sw("", &[flag])])));
        if let Node::Cmd(c) = &mut c {
            c.adjacent = true;
        }
        c
    };
    let l = lvl(seq(vec![
        sw("", &["alpha"]),
        many(alt(vec![mk("run", "delta"), mk("build", "name")])),
    ]));
    let p = build_level(&l);
    let run_v = |f: bool| V::Alt(0, Box::new(V::Cmd("run".into(), Box::new(V::Tup(vec![V::Bool(f)])))));
    let a = crate::outcome::argv_of(&["run", "run", "--alpha", "run"]);
    let got = run(&p, &a);
    ctx.eval(1);
    let want = V::Tup(vec![V::Bool(true), V::List(vec![run_v(false), run_v(false), run_v(false)])]);
    if got != Outcome::Value(want.clone()) {
        return Verdict::fail(
            "well-formed-blocks-not-parsed/Many/none",
            format!("{:?} should give {} but bpaf returned {}", show_argv(&a), want, got.short()),
        );
    }
    let b = crate::outcome::argv_of(&["run", "run", "--alpha", "--delta"]);
    let got = run(&p, &b);
    ctx.eval(1);
    let want = V::Tup(vec![V::Bool(true), V::List(vec![run_v(false), run_v(true)])]);
    match got {
        Outcome::Value(v) if v == want => Verdict::Pass,
        Outcome::Stderr(_) => Verdict::Pass,
        other => Verdict::fail(
            "broken-block-accepted/split-by-foreign-item",
            format!("{:?}: `--delta` must be used or reported, bpaf returned {}", show_argv(&b), other.short()),
        ),
    }
}
