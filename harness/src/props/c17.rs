//! C17 — derive and combinatoric APIs define the same parser.

use std::fs;
use std::path::{Path, PathBuf};
use std::process::{Command, Stdio};

use proptest::collection::vec;
use proptest::prelude::any;
use proptest::test_runner::{Config, RngSeed, TestRunner};
use serde_json::{json, Value};

use crate::broad::*;
use crate::c17gen::{crate_source, gen_family, TypeIR};
use crate::engine::{Ctx, Prop, RunEnv, Verdict, Violation};
use crate::gen::Names;
use crate::outcome::show_argv;
use crate::spec::*;
use crate::un::{fnv, Un};

pub struct C17;

const QUICK_TYPES: usize = 96;
const THOROUGH_TYPES: usize = 320;

fn fam_dir(tag: u64) -> PathBuf {
    PathBuf::from(crate::engine::verif_root())
        .join("work")
        .join("c17")
        .join(format!("fam-{:016x}", tag))
}

fn target_dir() -> PathBuf {
    PathBuf::from(crate::engine::verif_root()).join("work").join("target-c17")
}

/// write and build the family crate; returns the path of its executable
pub fn build_family(seed_bytes: &[u8], n: usize) -> Result<(Vec<TypeIR>, PathBuf), String> {
    let family = gen_family(seed_bytes, n);
    let tag = fnv(&[seed_bytes, &(n as u64).to_le_bytes()[..]].concat());
    let dir = fam_dir(tag);
    fs::create_dir_all(dir.join("src")).map_err(|e| e.to_string())?;
    let name = format!("c17fam{:016x}", tag);
    let cargo = format!(
        "[package]\nname = \"{}\"\nversion = \"0.1.0\"\nedition = \"2021\"\n\n[workspace]\n\n[dependencies]\nbpaf = {{ path = \"{}\", features = [\"derive\"] }}\n\n[profile.release]\nopt-level = 1\ndebug-assertions = true\n",
        name,
        crate::engine::bpaf_repo()
    );
    let write_if_changed = |p: &Path, content: &str| -> Result<(), String> {
        if fs::read_to_string(p).ok().as_deref() != Some(content) {
            fs::write(p, content).map_err(|e| e.to_string())?;
        }
        Ok(())
    };
    write_if_changed(&dir.join("Cargo.toml"), &cargo)?;
    write_if_changed(&dir.join("src").join("main.rs"), &crate_source(&family))?;
    if !dir.join("Cargo.lock").exists() {
        let _ = fs::copy(format!("{}/Cargo.lock", crate::engine::bpaf_repo()), dir.join("Cargo.lock"));
    }
    let log = dir.join("build.log");
    let st = Command::new("cargo")
        .current_dir(&dir)
        .arg("build")
        .arg("--release")
        .arg("--offline")
        .arg("--target-dir")
        .arg(target_dir())
        .env("CARGO_NET_OFFLINE", "true")
        .stdin(Stdio::null())
        .stdout(Stdio::null())
        .stderr(fs::File::create(&log).map_err(|e| e.to_string())?)
        .status()
        .map_err(|e| e.to_string())?;
    if !st.success() {
        let tail: String = fs::read_to_string(&log)
            .unwrap_or_default()
            .lines()
            .filter(|l| l.contains("error") || l.starts_with("  -->") || l.starts_with("   |"))
            .take(40)
            .collect::<Vec<_>>()
            .join("\n");
        return Err(format!(
            "the generated family crate does not compile ({}):\n{}",
            log.display(),
            tail
        ));
    }
    Ok((family, target_dir().join("release").join(name)))
}

/// argument vector for a type from choice bytes
pub fn gen_argv(t: &TypeIR, bytes: &[u8]) -> Vec<Vec<u8>> {
    let mut u = Un::new(bytes);
    let mut names = Names::new();
    let sent = SentGen {
        names: &mut names,
        mode: ValMode::Tokens,
        in_group: false,
    }
    .level(&mut u, &t.level);
    let prep = prepare(&sent);
    let lay = layout(&mut u, &prep, true, true);
    let opts = SpellOpts {
        clusters: true,
        no_glued_non_utf8: true,
        no_hidden_in_cluster: crate::props::c02::hidden_leaves(&t.level),
    };
    let mut ex = 0;
    let plan = plan_spelling(&mut u, &lay, &opts, &mut ex);
    let mut st = SpellStats::default();
    let (mut argv, _) = render(&lay, &plan, &opts, &mut st);
    if u.chance(110) {
        let mut log = Vec::new();
        crate::props::c01::mutate(&mut u, &t.level, &mut argv, &mut log);
    }
    match u.below(10) {
        0 => argv.push(b"--help".to_vec()),
        1 => {
            argv.push(b"--help".to_vec());
            argv.push(b"--help".to_vec());
        }
        2 => argv.push(b"--version".to_vec()),
        3 => {
            // help inside a command
            let cmds = t.level.body.commands(true);
            if let Some(c) = cmds.first() {
                argv = vec![c.name.as_bytes().to_vec(), b"--help".to_vec()];
            }
        }
        4 => argv.clear(),
        _ => {}
    }
    argv
}

fn run_cases(exe: &Path, work: &Path, tag: &str, cases: &[(usize, Vec<Vec<u8>>)]) -> Result<Vec<(usize, String)>, String> {
    let cf = work.join(format!("c17-cases-{}.txt", tag));
    let of = work.join(format!("c17-out-{}.txt", tag));
    let mut text = String::new();
    for (ty, argv) in cases {
        let items: Vec<String> = argv
            .iter()
            .map(|a| format!("x{}", crate::engine::hex(a)))
            .collect();
        text.push_str(&format!("{} {}\n", ty, items.join(",")));
    }
    fs::write(&cf, text).map_err(|e| e.to_string())?;
    let st = Command::new(exe)
        .arg(&cf)
        .arg(&of)
        .env_clear()
        .stdin(Stdio::null())
        .stdout(Stdio::null())
        .stderr(Stdio::null())
        .status()
        .map_err(|e| format!("cannot run {:?}: {}", exe, e))?;
    if !st.success() {
        return Err(format!("family executable ended with {:?}", st));
    }
    let out = fs::read_to_string(&of).map_err(|e| e.to_string())?;
    let mut res = Vec::new();
    let mut cur: Option<(usize, String)> = None;
    for line in out.lines() {
        if let Some(n) = line.strip_prefix("MISMATCH ") {
            cur = Some((n.parse().unwrap_or(0), String::new()));
        } else if line == "END" {
            if let Some(c) = cur.take() {
                res.push(c);
            }
        } else if let Some((_, d)) = cur.as_mut() {
            d.push_str(line);
            d.push('\n');
        }
    }
    Ok(res)
}

fn encode_replay(seed_bytes: &[u8], n: usize, ty: usize, argv: &[Vec<u8>]) -> Vec<u8> {
    let mut b = Vec::new();
    b.push(seed_bytes.len() as u8);
    b.extend_from_slice(seed_bytes);
    b.extend_from_slice(&(n as u16).to_le_bytes());
    b.extend_from_slice(&(ty as u16).to_le_bytes());
    for a in argv {
        b.extend_from_slice(&(a.len() as u16).to_le_bytes());
        b.extend_from_slice(a);
    }
    b
}

fn decode_replay(b: &[u8]) -> Option<(Vec<u8>, usize, usize, Vec<Vec<u8>>)> {
    let sl = *b.first()? as usize;
    let seed = b.get(1..1 + sl)?.to_vec();
    let mut p = 1 + sl;
    let n = u16::from_le_bytes([*b.get(p)?, *b.get(p + 1)?]) as usize;
    let ty = u16::from_le_bytes([*b.get(p + 2)?, *b.get(p + 3)?]) as usize;
    p += 4;
    let mut argv = Vec::new();
    while p + 2 <= b.len() {
        let l = u16::from_le_bytes([b[p], b[p + 1]]) as usize;
        p += 2;
        argv.push(b.get(p..p + l)?.to_vec());
        p += l;
    }
    Some((seed, n, ty, argv))
}

fn classify(detail: &str) -> String {
    let kind = |l: &str| -> String {
        l.split_whitespace().nth(1).unwrap_or("?").to_owned()
    };
    let mut lines = detail.lines();
    let a = lines.next().map(kind).unwrap_or_default();
    let b = lines.next().map(kind).unwrap_or_default();
    format!("derive-and-twin-differ/{}-vs-{}", a, b)
}

impl Prop for C17 {
    fn id(&self) -> &'static str {
        "C17"
    }
    fn cases(&self) -> (u64, u64) {
        (20_000, 400_000)
    }
    fn uses_workers(&self) -> bool {
        false
    }
    fn rule(&self) -> &'static str {
        "a family of struct and enum definitions is generated from the seed (quick: 40 types, \
         thorough: 150 per family and several families): named fields drawn from 20 templates \
         (bool/()/T/Option<T>/Vec<T> with implicit consumers; explicit switch, flag, argument, \
         positional; optional/many/some/count/map/parse/catch; fallback(+display), guard, hide, \
         hide_usage, group_help, last) x 9 naming styles (none, short, long, both, explicit values, \
         several names, env; snake_case, camelCase, raw and single-letter identifiers) x doc \
         comments; tuple fields; enums with unit, struct and command variants (implicit and explicit \
         names, aliases, skip, hide); top level options/version/generate/private/fallback_to_usage/ \
         boxed/parser mode with 0-3 doc comment blocks. For each type the hand written combinator \
         twin is printed by an explicit translation of the documented rules. Both are compiled into \
         one executable and run on generated argument vectors (sentences of the twin's Spec, \
         mutated lines, --help at top and command level, --version, the empty line). Oracle \
         (differential): equal values (PartialEq on the derived type), equal failure class, equal \
         monochrome text. Non-trivial: type relying on >=2 implicit rules and >=1 explicit \
         annotation; distinct by (type, argv)."
    }
    fn assumptions(&self) -> Vec<&'static str> {
        vec!["the twin printer (harness/src/c17gen.rs) is a correct reading of the documented derive rules; a type of the family that does not compile is reported as an infrastructure error (exit 2), not as a violation"]
    }
    fn check(&self, bytes: &[u8], _ctx: &mut Ctx) -> Verdict {
        // replay of one saved case
        let (seed, n, ty, argv) = match decode_replay(bytes) {
            Some(x) => x,
            None => return Verdict::Skip("not a C17 replay file"),
        };
        let (family, exe) = match build_family(&seed, n) {
            Ok(x) => x,
            Err(e) => return Verdict::fail("infrastructure/build", e),
        };
        let work = PathBuf::from(crate::engine::verif_root()).join("work");
        match run_cases(&exe, &work, "replay", &[(ty, argv.clone())]) {
            Ok(m) if m.is_empty() => Verdict::Pass,
            Ok(m) => Verdict::fail(
                classify(&m[0].1),
                format!(
                    "type {}:\n{}\ntwin: {}\nargv {:?}\n{}",
                    family[ty].name,
                    family[ty].derive_src,
                    family[ty].twin_src,
                    show_argv(&argv),
                    m[0].1
                ),
            ),
            Err(e) => Verdict::fail("infrastructure/run", e),
        }
    }
    fn describe(&self, bytes: &[u8]) -> Value {
        match decode_replay(bytes) {
            Some((seed, n, ty, argv)) => {
                let fam = gen_family(&seed, n);
                json!({
                    "derive": fam.get(ty).map(|t| t.derive_src.clone()),
                    "twin": fam.get(ty).map(|t| t.twin_src.clone()),
                    "argv": show_argv(&argv),
                })
            }
            None => json!(null),
        }
    }
    fn parent_phase(&self, env: &RunEnv, ev: &mut Value) -> Vec<Violation> {
        let thorough = env.tier == "thorough";
        let families = if thorough { 4 } else { 1 };
        let n_types = if thorough { THOROUGH_TYPES } else { QUICK_TYPES };
        let (q, t) = self.cases();
        let total = ((if thorough { t } else { q }) as f64 * env.scale).ceil() as usize;
        let per_family = (total / families).max(1);
        let mut out = Vec::new();
        let mut evaluations = 0u64;
        let mut programs = 0usize;
        let mut nontrivial = std::collections::HashSet::new();
        let mut samples = Vec::new();
        let mut kinds: std::collections::BTreeMap<String, u64> = Default::default();
        let mut seen: Vec<String> = Vec::new();
        for f in 0..families {
            let mut seed_bytes = env.seed.to_le_bytes().to_vec();
            seed_bytes.push(f as u8);
            let (family, exe) = match build_family(&seed_bytes, n_types) {
                Ok(x) => x,
                Err(e) => {
                    *ev = json!({"build_error": e});
                    // rustc rejecting a type of the family (which compiles on the tree the
                    // check was validated on) is a verdict: a documented derive use no longer
                    // compiles. Anything else (cargo, disk, ...) is infrastructure.
                    let rustc = e.contains("error[E") || e.contains("error: ");
                    return vec![Violation {
                        sig: if rustc {
                            "derived-type-does-not-compile".into()
                        } else {
                            "infrastructure/build".into()
                        },
                        detail: e,
                        bytes: Vec::new(),
                        case: json!(null),
                    }];
                }
            };
            programs += family.len();
            for t in &family {
                *kinds.entry(format!("type:{}", t.kind)).or_default() += 1;
            }
            // argument vectors from proptest generated choice strings
            let blobs: std::cell::RefCell<Vec<Vec<u8>>> = std::cell::RefCell::new(Vec::new());
            let mut runner = TestRunner::new(Config {
                cases: per_family as u32,
                rng_seed: RngSeed::Fixed(fnv(&[&seed_bytes[..], b"C17-argv"].concat())),
                failure_persistence: None,
                ..Config::default()
            });
            let _ = runner.run(&vec(any::<u8>(), 0..160), |b| {
                blobs.borrow_mut().push(b);
                Ok(())
            });
            let blobs = blobs.into_inner();
            let mut cases: Vec<(usize, Vec<Vec<u8>>)> = Vec::new();
            for (i, b) in blobs.iter().enumerate() {
                let ty = i % family.len();
                let argv = gen_argv(&family[ty], b);
                let t = &family[ty];
                if t.implicit_rules >= 2 && t.explicit_annotations >= 1 {
                    nontrivial.insert(fnv(format!("{}{:?}{:?}", f, ty, argv).as_bytes()));
                }
                if samples.len() < 4 && i % 97 == 0 {
                    samples.push(json!({
                        "derive": t.derive_src,
                        "twin": t.twin_src,
                        "argv": show_argv(&argv),
                    }));
                }
                cases.push((ty, argv));
            }
            let mism = match run_cases(&exe, &env.work, &format!("f{}", f), &cases) {
                Ok(m) => m,
                Err(e) => {
                    return vec![Violation {
                        sig: "infrastructure/run".into(),
                        detail: e,
                        bytes: Vec::new(),
                        case: json!(null),
                    }]
                }
            };
            evaluations += cases.len() as u64 * 2;
            for (n, detail) in mism {
                let (ty, argv) = &cases[n];
                let sig = format!("{}/{}", classify(&detail), family[*ty].kind);
                if seen.contains(&sig) {
                    continue;
                }
                seen.push(sig.clone());
                out.push(Violation {
                    sig,
                    detail: format!(
                        "type {}:\n{}\ntwin: {}\nargv {:?}\n{}",
                        family[*ty].name,
                        family[*ty].derive_src,
                        family[*ty].twin_src,
                        show_argv(argv),
                        detail
                    ),
                    bytes: encode_replay(&seed_bytes, n_types, *ty, argv),
                    case: json!({"type": family[*ty].name, "argv": show_argv(argv)}),
                });
            }
        }
        *ev = json!({
            "evaluations": evaluations,
            "distinct_nontrivial": nontrivial.len() as u64,
            "samples": samples,
            "programs": programs,
            "families": families,
            "type_kinds": kinds,
        });
        out
    }
}
