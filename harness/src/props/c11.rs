//! C11 — outcome classes map to streams and exit status (real process, real `run()`).

use std::ffi::OsString;
use std::os::unix::ffi::OsStringExt;
use std::os::unix::process::CommandExt;
use std::path::PathBuf;
use std::process::{Command, Stdio};

use serde_json::{json, Value};

use crate::broad::*;
use crate::build::build_level;
use crate::engine::{hex, Ctx, Prop, Verdict};
use crate::gen::*;
use crate::outcome::{guarded, run_cfg, show_argv, show_bytes, Outcome, RunCfg};
use crate::spec::*;
use crate::un::{fnv_str, Un};
use crate::wild::{gen_wild_argv, sanitize_argv};

pub struct C11;

pub struct Case {
    pub level: Level,
    pub argv: Vec<Vec<u8>>,
    pub argv0: Vec<u8>,
    pub excluded: usize,
    /// number of choice bytes used by the definition (the child decodes only those)
    pub spec_bytes: Vec<u8>,
}

fn cfg() -> BroadCfg {
    BroadCfg {
        max_fields: 5,
        help: HelpGen::Markers,
        version: true,
        usage_fallback: true,
        ..BroadCfg::default()
    }
}

/// the definition part of the decoder, shared with the child process
pub fn decode_level(u: &mut Un) -> Level {
    let mut names = Names::new();
    let mut level = gen_broad_level(u, &mut names, &cfg(), 1);
    crate::props::c14::add_completers(&mut level.body, u, true);
    level
}

pub fn decode(bytes: &[u8]) -> Case {
    let mut u = Un::new(bytes);
    let level = decode_level(&mut u);
    let used = u.used().min(bytes.len());
    let mut spec_bytes = bytes[..used].to_vec();
    // exhausted streams read zeros: keep that behaviour for the child
    spec_bytes.resize(used.max(1), 0);
    let mut argv = if u.chance(150) {
        // a sentence (mostly accepted), maybe mutated
        let mut names = Names::new();
        names.reserve_short('h');
        let sent = SentGen {
            names: &mut names,
            mode: ValMode::Hard,
            in_group: false,
        }
        .level(&mut u, &level);
        let prep = prepare(&sent);
        let lay = layout(&mut u, &prep, true, true);
        let opts = SpellOpts {
            clusters: true,
            no_glued_non_utf8: true,
            no_hidden_in_cluster: crate::props::c02::hidden_leaves(&level),
        };
        let mut ex = 0;
        let plan = plan_spelling(&mut u, &lay, &opts, &mut ex);
        let mut st = SpellStats::default();
        let (mut a, _) = render(&lay, &plan, &opts, &mut st);
        if u.chance(90) {
            let mut log = Vec::new();
            crate::props::c01::mutate(&mut u, &level, &mut a, &mut log);
        }
        match u.below(8) {
            0 => a.push(b"--help".to_vec()),
            1 => a.push(b"--version".to_vec()),
            2 => {
                let rev = *u.pick(&[0u8, 1, 7, 8, 9]);
                a.insert(0, format!("--bpaf-complete-rev={}", rev).into_bytes());
                a.push(u.pick(&[&b""[..], &b"-"[..], &b"--"[..], &b"x"[..]]).to_vec());
            }
            _ => {}
        }
        a
    } else {
        gen_wild_argv(&mut u, &level)
    };
    // the OS cannot pass NUL bytes
    for a in argv.iter_mut() {
        a.retain(|b| *b != 0);
    }
    // completion-style requests and unknown revisions leave the process by protocol
    let mut excluded = 0;
    let before = argv.len();
    argv.retain(|a| {
        if let Some(r) = a.strip_prefix(b"--bpaf-complete-rev=") {
            matches!(r, b"0" | b"1" | b"7" | b"8" | b"9")
        } else {
            !a.starts_with(b"--bpaf-complete-")
        }
    });
    excluded += before - argv.len();
    let _ = sanitize_argv;
    let argv0: Vec<u8> = match u.below(11) {
        8 => b"/opt/tools/prog-1.2".to_vec(),
        9 => b"app.bin".to_vec(),
        10 => b".hidden.x86_64.AppImage".to_vec(),
        0 => b"/usr/local/bin/my app".to_vec(),
        1 => b"./rel/\xffbad".to_vec(),
        2 => b"".to_vec(),
        3 => b"dir/".to_vec(),
        4 => "ünï-app".as_bytes().to_vec(),
        5 => b"..".to_vec(),
        _ => b"subject".to_vec(),
    };
    Case {
        level,
        argv,
        argv0,
        excluded,
        spec_bytes,
    }
}

pub fn subject_exe() -> PathBuf {
    let me = std::env::current_exe().expect("current exe");
    me.with_file_name("subject")
}

pub struct ChildOut {
    pub stdout: Vec<u8>,
    pub stderr: Vec<u8>,
    pub code: Option<i32>,
}

pub fn spawn_subject(
    gen: &str,
    spec_bytes: &[u8],
    argv: &[Vec<u8>],
    argv0: &[u8],
    env: &[(String, Vec<u8>)],
) -> Result<ChildOut, String> {
    let mut c = Command::new(subject_exe());
    c.arg0(OsString::from_vec(argv0.to_vec()));
    for a in argv {
        c.arg(OsString::from_vec(a.clone()));
    }
    c.env_clear();
    c.env("BPAF_VERIF_SPEC", hex(spec_bytes));
    c.env("BPAF_VERIF_GEN", gen);
    for (k, v) in env {
        c.env(k, OsString::from_vec(v.clone()));
    }
    c.stdin(Stdio::null());
    let out = c.output().map_err(|e| format!("cannot spawn subject: {}", e))?;
    Ok(ChildOut {
        stdout: out.stdout,
        stderr: out.stderr,
        code: out.status.code(),
    })
}

/// what the streams and status must be for an in-process outcome
pub fn predict(o: &Outcome) -> Option<(Vec<u8>, Vec<u8>, i32)> {
    match o {
        Outcome::Value(v) => Some((format!("BODY {:?}\n", v).into_bytes(), Vec::new(), 0)),
        Outcome::Stdout { text, .. } => Some((format!("{}\n", text).into_bytes(), Vec::new(), 0)),
        Outcome::Stderr(t) => Some((Vec::new(), format!("Error: {}\n", t).into_bytes(), 1)),
        Outcome::Completion(s) => Some((s.clone().into_bytes(), Vec::new(), 0)),
        Outcome::Panic { .. } => None,
    }
}

pub fn name_of(argv0: &[u8]) -> Option<String> {
    let p = PathBuf::from(OsString::from_vec(argv0.to_vec()));
    p.file_name()?.to_str().map(str::to_owned)
}

impl Prop for C11 {
    fn id(&self) -> &'static str {
        "C11"
    }
    fn cases(&self) -> (u64, u64) {
        (40_000, 300_000)
    }
    fn rule(&self) -> &'static str {
        "choice bytes -> broad definition (with completers) compiled into the real `subject` \
         executable, which decodes the same bytes, builds the same parser and calls the real \
         OptionParser::run(); on success it prints `BODY <value>` and exits 0 -> argument vector: a \
         generated sentence (hard byte values, maybe mutated, maybe with --help / --version / a \
         --bpaf-complete-rev=N request) or arbitrary byte strings incl. invalid UTF-8 -> argv[0] from \
         {plain, absolute path with a space, non-UTF-8, empty, trailing slash, `..`, non-ASCII}. \
         Oracle (differential process vs in-process): run_inner(Args::from(argv).set_name(file name \
         of argv[0])) predicts class, stream, text and status: value -> stdout `BODY v`, empty \
         stderr, 0; help/version -> stdout text + newline, 0; completion -> stdout exactly, 0; \
         failure -> stderr `Error: text`, empty stdout, 1, non-empty text; the body runs iff a value \
         was produced. Non-trivial: any class other than plain success, or a non-UTF-8 item, or a \
         non-trivial argv[0]; distinct by hash of (definition, argv, argv0)."
    }
    fn assumptions(&self) -> Vec<&'static str> {
        vec![
            "`--bpaf-complete-style-*` and unknown completion revisions are excluded (documented process exits); NUL bytes cannot be passed through the OS",
            "max_width is left at its default so Doc::monochrome is the exact prediction of print_message",
        ]
    }
    fn check(&self, bytes: &[u8], ctx: &mut Ctx) -> Verdict {
        let case = decode(bytes);
        for _ in 0..case.excluded {
            ctx.excluded("--bpaf-complete-* item that leaves the process by protocol");
        }
        let parser = match guarded(|| {
            let p = build_level(&case.level);
            p.check_invariants(false);
            p
        }) {
            Ok(p) => p,
            Err((at, msg)) => {
                return Verdict::fail(
                    "generator/invariants",
                    format!("check_invariants panicked at {}: {}", at, msg),
                )
            }
        };
        let name = name_of(&case.argv0);
        let predicted = run_cfg(
            &parser,
            &case.argv,
            &RunCfg {
                name: name.as_deref(),
                comp: None,
            },
        );
        ctx.eval(1);
        let (want_out, want_err, want_code) = match predict(&predicted) {
            Some(x) => x,
            None => {
                if let Outcome::Panic { at, msg } = &predicted {
                    return Verdict::fail(format!("panic@{}", at), msg.clone());
                }
                unreachable!()
            }
        };
        let child = match spawn_subject("c11", &case.spec_bytes, &case.argv, &case.argv0, &[]) {
            Ok(c) => c,
            Err(e) => return Verdict::fail("harness/spawn", e),
        };
        ctx.eval(1);
        ctx.class(&format!("class:{}", predicted.class()));
        let odd_argv0 = case.argv0 != b"subject";
        if !matches!(predicted, Outcome::Value(_))
            || case.argv.iter().any(|a| std::str::from_utf8(a).is_err())
            || odd_argv0
        {
            ctx.nontrivial(fnv_str(&format!("{:?}{:?}{:?}", case.level, case.argv, case.argv0)));
        }
        // stdout with status 0 is for help, version and completion: something on the line must
        // have asked for it (a help or version flag of some level left of `--`), or a level with
        // fallback_to_usage got no item at all
        if let Outcome::Stdout { text, .. } = &predicted {
            let left_end = case
                .argv
                .iter()
                .position(|a| a.as_slice() == b"--")
                .unwrap_or(case.argv.len());
            let mut request_names: Vec<Vec<u8>> = Vec::new();
            let mut usage_fallback = false;
            let mut cmd_names: Vec<Vec<u8>> = Vec::new();
            for (_, l) in crate::props::c10::levels_with_paths(&case.level) {
                for x in l.info.help_longs().iter().chain(l.info.version_longs().iter()) {
                    request_names.push(format!("--{}", x).into_bytes());
                }
                for x in l.info.help_shorts().iter().chain(l.info.version_shorts().iter()) {
                    request_names.push(format!("-{}", x).into_bytes());
                }
                usage_fallback |= l.info.fallback_to_usage;
            }
            for c in case.level.body.commands(true) {
                for n in c.all_names() {
                    cmd_names.push(n.into_bytes());
                }
            }
            let asked = case.argv[..left_end].iter().any(|a| {
                request_names.contains(a)
                    // a short help/version flag inside a cluster
                    || (a.len() > 2
                        && a[0] == b'-'
                        && a[1] != b'-'
                        && request_names.iter().any(|r| {
                            r.len() >= 2 && r[0] == b'-' && r[1] != b'-' && {
                                let body = String::from_utf8_lossy(&a[1..]).into_owned();
                                let c = String::from_utf8_lossy(&r[1..]).into_owned();
                                body.contains(&c)
                            }
                        }))
            });
            // a level entered through its command name may see no item of its own while options
            // of the enclosing level stand to its right: only lines without any command name
            // are judged here
            let nothing_typed = case.argv.is_empty()
                || case.argv.iter().any(|a| cmd_names.contains(a))
                || case.argv.iter().all(|a| a.as_slice() == b"--");
            if !asked && !(usage_fallback && nothing_typed) {
                return Verdict::fail(
                    "stdout-and-success-without-a-request",
                    format!(
                        "{} on {:?}: no help or version flag on the line, yet the outcome is stdout/0:\n{}",
                        show_level(&case.level),
                        show_argv(&case.argv),
                        text
                    ),
                );
            }
        }
        if let Outcome::Stderr(t) = &predicted {
            if t.trim().is_empty() {
                return Verdict::fail(
                    "failure-with-empty-message",
                    format!("{:?}", show_argv(&case.argv)),
                );
            }
        }
        let describe = || {
            format!(
                "{} argv0={:?} argv={:?}\npredicted by run_inner: {}\nprocess: status {:?}\nstdout {:?}\nstderr {:?}",
                show_level(&case.level),
                show_bytes(&case.argv0),
                show_argv(&case.argv),
                predicted.short(),
                child.code,
                String::from_utf8_lossy(&child.stdout),
                String::from_utf8_lossy(&child.stderr)
            )
        };
        if child.code != Some(want_code) {
            return Verdict::fail(
                format!("exit-status/{}-{:?}", predicted.class(), child.code),
                describe(),
            );
        }
        if child.stdout != want_out {
            let body = child.stdout.starts_with(b"BODY ");
            return Verdict::fail(
                if body && !matches!(predicted, Outcome::Value(_)) {
                    "program-body-ran-without-a-value".to_owned()
                } else {
                    format!("stdout-differs/{}", predicted.class())
                },
                describe(),
            );
        }
        if child.stderr != want_err {
            return Verdict::fail(format!("stderr-differs/{}", predicted.class()), describe());
        }
        Verdict::Pass
    }
    fn describe(&self, bytes: &[u8]) -> Value {
        let case = decode(bytes);
        json!({
            "definition": show_level(&case.level),
            "argv0": show_bytes(&case.argv0),
            "argv": show_argv(&case.argv),
        })
    }
}
