//! C14 — dynamic completion offers real, visible, applicable candidates.

use serde_json::{json, Value};

use crate::broad::*;
use crate::build::build_level;
use crate::engine::{Ctx, Prop, Regression, Verdict};
use crate::gen::*;
use crate::outcome::{guarded, run_cfg, show_argv, Outcome, RunCfg};
use crate::props::c12::{things, Thing};
use crate::spec::*;
use crate::un::{fnv_str, Un};

pub struct C14;

pub const SIG_NAME_EQ_NOT_ACCEPTABLE: &str = "unrelated-candidates-for-typed-name=value";

pub struct Case {
    pub level: Level,
    /// the full clean sentence
    pub sentence: Vec<Vec<u8>>,
    /// items before the typed one
    pub prefix: Vec<Vec<u8>>,
    pub typed: String,
    pub variant: &'static str,
    pub clean_prefix: bool,
}

pub fn cfg() -> BroadCfg {
    BroadCfg {
        max_fields: 5,
        help: HelpGen::Markers,
        adjacent_args: false,
        ..BroadCfg::default()
    }
}

/// wrap some string leaves with completers
pub fn add_completers(n: &mut Node, u: &mut Un, shell: bool) {
    match n {
        Node::Named(x) => {
            if let NamedKind::Arg { ty: Ty::Str, .. } = x.kind {
                if u.chance(110) {
                    let id = x.id;
                    let inner = std::mem::replace(n, Node::Pure(String::new()));
                    *n = wrap_completer(inner, id, u, shell);
                }
            }
        }
        Node::Pos(p) => {
            if p.ty == Ty::Str && u.chance(110) {
                let id = p.id;
                let inner = std::mem::replace(n, Node::Pure(String::new()));
                *n = wrap_completer(inner, id, u, shell);
            }
        }
        Node::Cmd(c) => add_completers(&mut c.level.body, u, shell),
        Node::Pure(_) | Node::Fail(_) | Node::Any(_) => {}
        Node::Seq(xs) | Node::Alt(xs) | Node::Adjacent(xs) => {
            for x in xs {
                add_completers(x, u, shell);
            }
        }
        Node::Optional { n: inner, .. }
        | Node::Many { n: inner, .. }
        | Node::Some { n: inner, .. }
        | Node::Fallback { n: inner, .. }
        | Node::FallbackWith { n: inner, .. }
            if str_leaf_id(inner).is_some() && u.chance(70) =>
        {
            // the completer sits on top of the wrapper: `argument(..).optional().complete(f)`
            let id = str_leaf_id(inner).unwrap();
            let whole = std::mem::replace(n, Node::Pure(String::new()));
            *n = wrap_completer(whole, id, u, shell);
        }
        Node::Optional { n, .. }
        | Node::Many { n, .. }
        | Node::Some { n, .. }
        | Node::Collect { n, .. }
        | Node::Count(n)
        | Node::Last(n)
        | Node::Fallback { n, .. }
        | Node::FallbackWith { n, .. }
        | Node::Guard { n, .. }
        | Node::Parse { n, .. }
        | Node::Map(n)
        | Node::Hide(n)
        | Node::HideUsage(n)
        | Node::CustomUsage(n, _)
        | Node::GroupHelp(n, _)
        | Node::WithGroupHelp(n, _)
        | Node::Complete { n, .. }
        | Node::CompleteShell(n, _)
        | Node::Boxed(n) => add_completers(n, u, shell),
    }
}

/// id of a string-typed argument leaf
fn str_leaf_id(n: &Node) -> Option<usize> {
    match n {
        Node::Named(x) => match x.kind {
            NamedKind::Arg { ty: Ty::Str, .. } => Some(x.id),
            _ => None,
        },
        // positionals are left out on purpose: `positional(..).optional().complete(f)` calls f
        // with "nothing parsed" whenever the slot is still open, also while the value of a
        // hidden argument is being typed - whose candidates those are is not something the
        // property decides (see DESIGN.md, round 4)
        _ => None,
    }
}

/// `.catch()` on some optional/many/some wrappers (completion hints must survive it)
pub fn add_catch(n: &mut Node, u: &mut Un) {
    match n {
        Node::Optional { n, catch } | Node::Many { n, catch } | Node::Some { n, catch, .. } => {
            if u.chance(60) {
                *catch = true;
            }
            add_catch(n, u);
        }
        Node::Cmd(c) => add_catch(&mut c.level.body, u),
        Node::Seq(xs) | Node::Alt(xs) | Node::Adjacent(xs) => {
            for x in xs {
                add_catch(x, u);
            }
        }
        Node::Named(_) | Node::Pos(_) | Node::Pure(_) | Node::Fail(_) | Node::Any(_) => {}
        Node::Collect { n, .. }
        | Node::Count(n)
        | Node::Last(n)
        | Node::Fallback { n, .. }
        | Node::FallbackWith { n, .. }
        | Node::Guard { n, .. }
        | Node::Parse { n, .. }
        | Node::Map(n)
        | Node::Hide(n)
        | Node::HideUsage(n)
        | Node::CustomUsage(n, _)
        | Node::GroupHelp(n, _)
        | Node::WithGroupHelp(n, _)
        | Node::Complete { n, .. }
        | Node::CompleteShell(n, _)
        | Node::Boxed(n) => add_catch(n, u),
    }
}

fn wrap_completer(inner: Node, id: usize, u: &mut Un, shell: bool) -> Node {
    if shell && u.chance(80) {
        return Node::CompleteShell(inner.b(), crate::wild::gen_shell(u));
    }
    let cands = vec![
        (format!("c{}alpha", id), Some(format!("first of {}", id))),
        (format!("c{}beta", id), None),
        (format!("c{}bexa", id), Some("third".to_owned())),
    ];
    Node::Complete {
        n: inner.b(),
        cands,
        group: if u.chance(60) {
            Some(format!("group{}", id))
        } else {
            None
        },
    }
}

pub fn decode(bytes: &[u8]) -> Case {
    let mut u = Un::new(bytes);
    let mut names = Names::new();
    let mut level = gen_broad_level(&mut u, &mut names, &cfg(), 1);
    add_completers(&mut level.body, &mut u, true);
    add_catch(&mut level.body, &mut u);
    let sent = SentGen {
        names: &mut names,
        mode: ValMode::Tokens,
        in_group: false,
    }
    .level(&mut u, &level);
    let prep = prepare(&sent);
    let lay = layout(&mut u, &prep, true, false);
    let opts = SpellOpts {
        clusters: false,
        no_glued_non_utf8: true,
        no_hidden_in_cluster: crate::props::c02::hidden_leaves(&level),
    };
    let mut ex = 0;
    let plan = plan_spelling(&mut u, &lay, &opts, &mut ex);
    let mut st = SpellStats::default();
    let (mut sentence, _) = render(&lay, &plan, &opts, &mut st);
    // completion works on the part left of `--`
    if let Some(p) = sentence.iter().position(|a| a.as_slice() == b"--") {
        sentence.truncate(p);
    }
    // only valid UTF-8 items (the typed word must be; earlier ones are kept simple too)
    for it in sentence.iter_mut() {
        if std::str::from_utf8(it).is_err() {
            *it = crate::un::drop_invalid_utf8(it);
        }
    }
    let k = u.below(sentence.len() + 1);
    let mut prefix = sentence[..k].to_vec();
    let mut clean_prefix = true;
    if u.chance(30) && !prefix.is_empty() {
        let at = u.below(prefix.len());
        prefix[at] = b"--zzz-unknown".to_vec();
        clean_prefix = false;
    }
    // what is being typed
    let all_named = level.body.named_leaves(true);
    let any_leaf = if all_named.is_empty() {
        None
    } else {
        Some(all_named[u.below(all_named.len())].clone())
    };
    let cmd_names: Vec<String> = level
        .body
        .commands(true)
        .iter()
        .map(|c| c.name.clone())
        .collect();
    let cmd_aliases: Vec<(char, String)> = level
        .body
        .commands(true)
        .iter()
        .filter_map(|c| c.shorts.first().map(|s| (*s, c.name.clone())))
        .collect();
    let (typed, variant): (String, &'static str) = match u.below(12) {
        10 if !cmd_aliases.is_empty() => {
            // the one-letter alias of a command followed by more letters
            let (a, _) = u.pick(&cmd_aliases).clone();
            let tail = *u.pick(&["x", "e", "u", "zz", "es"]);
            (format!("{}{}", a, tail), "alias-plus-letters")
        }
        11 if !cmd_aliases.is_empty() => {
            let (a, _) = u.pick(&cmd_aliases).clone();
            (a.to_string(), "exact-alias")
        }
        0 => (String::new(), "empty"),
        1 => ("-".into(), "dash"),
        2 => ("--".into(), "dashdash"),
        3 => match any_leaf.as_ref().and_then(|l| l.longs.first().cloned()) {
            Some(l) => {
                let n = l.chars().count();
                let keep = 1 + u.below(n.max(1));
                (
                    format!("--{}", l.chars().take(keep.min(n.saturating_sub(1)).max(1)).collect::<String>()),
                    "long-prefix",
                )
            }
            None => ("--".into(), "dashdash"),
        },
        4 => match any_leaf.as_ref().and_then(|l| l.shorts.first().copied()) {
            Some(s) => (format!("-{}", s), "exact-short"),
            None => ("-".into(), "dash"),
        },
        5 => match any_leaf.as_ref().filter(|l| l.is_arg()).map(|l| l.first_name()) {
            Some(n) => (format!("{}=", n), "name-equals"),
            None => (String::new(), "empty"),
        },
        6 => match any_leaf.as_ref().filter(|l| l.is_arg()) {
            Some(l) => (format!("{}=c{}b", l.first_name(), l.id), "name-equals-prefix"),
            None => (String::new(), "empty"),
        },
        7 => match any_leaf.as_ref() {
            Some(l) => (format!("c{}b", l.id), "value-prefix"),
            None => ("c".into(), "value-prefix"),
        },
        8 => {
            if cmd_names.is_empty() {
                (String::new(), "empty")
            } else {
                let c = u.pick(&cmd_names).clone();
                let n = c.chars().count();
                (c.chars().take(1 + u.below(n)).collect(), "command-prefix")
            }
        }
        _ => ("x".into(), "word"),
    };
    Case {
        level,
        sentence,
        prefix,
        typed,
        variant,
        clean_prefix,
    }
}

#[derive(Debug, Default)]
pub struct Parsed {
    pub rows: Vec<(String, String, String, String)>,
    pub ops: Vec<String>,
    pub echo: bool,
}

/// parse the revision 0 (test) format
pub fn parse_rev0(text: &str) -> Parsed {
    let mut p = Parsed::default();
    if !text.contains('\t') {
        if text.starts_with('\n') {
            p.ops = text.lines().skip(1).filter(|l| !l.is_empty()).map(str::to_owned).collect();
        } else if text.ends_with('\n') {
            p.echo = true;
        } else {
            p.rows.push((text.to_owned(), text.to_owned(), String::new(), String::new()));
        }
        return p;
    }
    let mut in_ops = false;
    for line in text.split('\n') {
        if in_ops {
            if !line.is_empty() {
                p.ops.push(line.to_owned());
            }
            continue;
        }
        if line.is_empty() {
            in_ops = true;
            continue;
        }
        let f: Vec<&str> = line.split('\t').collect();
        if f.len() == 4 {
            p.rows.push((f[0].into(), f[1].into(), f[2].into(), f[3].into()));
        } else {
            p.rows.push((line.to_owned(), "<malformed row>".into(), String::new(), String::new()));
        }
    }
    p
}

fn preferred(x: &NamedSpec) -> String {
    match (x.longs.first(), x.shorts.first()) {
        (Some(l), _) => format!("--{}", l),
        (None, Some(s)) => format!("-{}", s),
        _ => String::new(),
    }
}

fn completer_cands(n: &Node, out: &mut Vec<String>) {
    n.walk(false, &mut |x| {
        if let Node::Complete { cands, .. } = x {
            out.extend(cands.iter().map(|c| c.0.clone()));
        }
    });
}

pub fn check_case(case: &Case, ctx: &mut Ctx) -> Verdict {
    let parser = match guarded(|| {
        let p = build_level(&case.level);
        p.check_invariants(false);
        p
    }) {
        Ok(p) => p,
        Err((at, msg)) => {
            return Verdict::fail(
                "generator/invariants",
                format!("check_invariants panicked at {}: {}", at, msg),
            )
        }
    };
    let mut argv = case.prefix.clone();
    argv.push(case.typed.clone().into_bytes());
    let out = run_cfg(
        &parser,
        &argv,
        &RunCfg {
            name: None,
            comp: Some(0),
        },
    );
    ctx.eval(1);
    ctx.class(&format!("typed:{}", case.variant));
    let text = match &out {
        Outcome::Completion(t) => t.clone(),
        Outcome::Panic { at, msg } => return Verdict::fail(format!("panic@{}", at), msg.clone()),
        other => {
            return Verdict::fail(
                format!("completion-request-answered-with-{}", other.class()),
                format!("{:?} (completion requested) -> {}", show_argv(&argv), other.short()),
            )
        }
    };
    let parsed = parse_rev0(&text);
    // chain of levels entered by the prefix
    let (path, active) = {
        let mut cur = &case.level;
        let mut path: Vec<String> = Vec::new();
        let mut chain: Vec<&Level> = vec![cur];
        let mut skip = false;
        for it in &case.prefix {
            if skip {
                skip = false;
                continue;
            }
            let s = String::from_utf8_lossy(it).into_owned();
            if s.starts_with('-') {
                if !s.contains('=') {
                    let is_arg = cur.body.named_leaves(false).iter().any(|l| {
                        l.is_arg()
                            && (l.longs.iter().any(|x| format!("--{}", x) == s)
                                || l.shorts.iter().any(|x| format!("-{}", x) == s))
                    });
                    skip = is_arg;
                }
                continue;
            }
            if let Some(c) = cur
                .body
                .commands(false)
                .into_iter()
                .find(|c| c.all_names().iter().any(|n| *n == s))
            {
                path.push(c.name.clone());
                cur = &c.level;
                chain.push(cur);
            }
        }
        (path, chain)
    };
    let typed = case.typed.as_str();
    let (tname, tvalue): (&str, Option<&str>) = match typed.split_once('=') {
        Some((n, v)) if typed.starts_with('-') => (n, Some(v)),
        _ => (typed, None),
    };
    let mut names_ok: Vec<(String, &NamedSpec)> = Vec::new();
    let mut hidden_names: Vec<String> = Vec::new();
    let mut cmds_ok: Vec<&CmdSpec> = Vec::new();
    let mut metas: Vec<String> = Vec::new();
    let mut cands: Vec<String> = Vec::new();
    for l in &active {
        for v in things(l) {
            match v.thing {
                Thing::Named(x) => {
                    if v.hidden {
                        hidden_names.push(preferred(x));
                    } else {
                        names_ok.push((preferred(x), x));
                    }
                    if let NamedKind::Arg { metavar, .. } = &x.kind {
                        metas.push(metavar.clone());
                    }
                }
                Thing::Pos(p) => metas.push(p.metavar.clone()),
                Thing::Cmd(c) => {
                    if !v.hidden {
                        cmds_ok.push(c);
                    }
                }
            }
        }
        completer_cands(&l.body, &mut cands);
    }
    let nontrivial = case.prefix.len() >= 2 && (!path.is_empty() || case.variant.contains("value") || case.variant.contains("equals"));
    if nontrivial {
        ctx.nontrivial(fnv_str(&format!("{:?}{:?}", case.level, argv)));
    }
    if !path.is_empty() {
        ctx.class("inside-subcommand");
    }
    // when `name=...` is typed: can the active level take that argument at this point at all?
    let dangling = case.prefix.last().map_or(false, |it| {
        let s = String::from_utf8_lossy(it).into_owned();
        s.starts_with('-')
            && !s.contains('=')
            && active.iter().any(|l| {
                l.body.named_leaves(false).iter().any(|x| {
                    x.is_arg()
                        && (x.longs.iter().any(|y| format!("--{}", y) == s)
                            || x.shorts.iter().any(|y| format!("-{}", y) == s))
                })
            })
    });
    let typed_name_acceptable = tvalue.is_some() && case.clean_prefix && !dangling && {
        let level = *active.last().unwrap();
        let repeat = crate::props::c05::repeatable_leaves(level);
        things(level).iter().any(|v| match v.thing {
            Thing::Named(x) => {
                let is_it = x.is_arg()
                    && (x.longs.iter().any(|l| format!("--{}", l) == tname)
                        || x.shorts.iter().any(|c| format!("-{}", c) == tname));
                let given = case.prefix.iter().any(|it| {
                    let s = String::from_utf8_lossy(it).into_owned();
                    let n = s.split('=').next().unwrap_or("").to_owned();
                    x.longs.iter().any(|y| format!("--{}", y) == n)
                        || x.shorts.iter().any(|y| s.starts_with(&format!("-{}", y)) && !s.starts_with("--"))
                });
                is_it && !v.hidden && !v.in_adjacent && !v.grouped && (!given || repeat.contains(&x.id))
            }
            _ => false,
        })
    };
    let _ = typed_name_acceptable;
    let mismatch_sig = if tvalue.is_some() {
        SIG_NAME_EQ_NOT_ACCEPTABLE
    } else {
        "candidate-does-not-match-typed-text"
    };
    let fail = |sig: &str, what: String| -> Verdict {
        Verdict::fail(
            sig.to_owned(),
            format!(
                "{} on {:?} (completing {:?}):\n{}\ncompletion output:\n{}",
                show_level(&case.level),
                show_argv(&case.prefix),
                typed,
                what,
                text
            ),
        )
    };
    for (subst, pretty, _group, _help) in &parsed.rows {
        if pretty == "<malformed row>" {
            return fail("malformed-completion-row", format!("{:?}", subst));
        }
        if subst.is_empty() {
            // metavariable placeholder
            if !metas.contains(pretty) {
                return fail("placeholder-is-not-a-metavariable", format!("{:?}", pretty));
            }
            continue;
        }
        if subst == "--" && pretty == "--" {
            // bpaf's own separator suggestion for strict positionals: not generated here
            return fail("unexpected-separator-candidate", String::new());
        }
        if subst.starts_with('-') && subst.contains('=') {
            // name=value form
            let (n, v) = subst.split_once('=').unwrap();
            if n != tname {
                return fail("value-candidate-for-another-name", format!("{:?}", subst));
            }
            if !cands.iter().any(|c| c == v) || !v.starts_with(tvalue.unwrap_or("")) {
                return fail("value-candidate-not-from-completer", format!("{:?}", subst));
            }
            continue;
        }
        if subst.starts_with('-') {
            if hidden_names.contains(subst) {
                return fail("hidden-name-offered", format!("{:?}", subst));
            }
            let leaf = match names_ok.iter().find(|(n, _)| n == subst) {
                Some((_, l)) => *l,
                None => {
                    return fail(
                        "name-of-command-not-entered-or-unknown-offered",
                        format!("{:?} is not a visible name of the active command chain {:?}", subst, path),
                    )
                }
            };
            let matches = if tname.is_empty() || tname == "-" {
                true
            } else if let Some(pre) = tname.strip_prefix("--") {
                leaf.longs.first().map_or(false, |l| l.starts_with(pre))
            } else if let Some(s) = tname.strip_prefix('-') {
                let mut cs = s.chars();
                match (cs.next(), cs.next()) {
                    (Some(c), None) => leaf.shorts.first() == Some(&c),
                    _ => false,
                }
            } else {
                false
            };
            if !matches {
                return fail(mismatch_sig, format!("{:?}", subst));
            }
            continue;
        }
        // a word: command name or completer value
        if let Some(c) = cmds_ok.iter().find(|c| c.name == *subst) {
            let ok = c.name.starts_with(typed)
                || c.shorts.first().map_or(false, |s| s.to_string() == typed);
            if !ok {
                return fail(mismatch_sig, format!("command {:?}", subst));
            }
            continue;
        }
        if cands.iter().any(|c| c == subst) {
            let pre = tvalue.unwrap_or(if typed.starts_with('-') { "" } else { typed });
            if !subst.starts_with(pre) {
                return fail("value-candidate-does-not-extend-typed-text", format!("{:?}", subst));
            }
            continue;
        }
        return fail(
            "candidate-is-neither-name-value-nor-placeholder",
            format!("{:?}", subst),
        );
    }

    // completeness for a freshly typed --prefix in option position
    // inside a hidden command bpaf offers nothing at all (its items count as hidden)
    let via_hidden_command = {
        let mut cur = &case.level;
        let mut hidden = false;
        for name in &path {
            let t = things(cur);
            match t.iter().find_map(|v| match v.thing {
                Thing::Cmd(c) if c.name == *name => Some((c, v.hidden)),
                _ => None,
            }) {
                Some((c, h)) => {
                    hidden |= h;
                    cur = &c.level;
                }
                None => break,
            }
        }
        hidden
    };
    if case.clean_prefix && typed.starts_with("--") && tvalue.is_none() && !via_hidden_command {
        let last_is_arg_name = case.prefix.last().map_or(false, |it| {
            let s = String::from_utf8_lossy(it).into_owned();
            !s.contains('=')
                && active.iter().any(|l| {
                    l.body.named_leaves(false).iter().any(|x| {
                        x.is_arg()
                            && (x.longs.iter().any(|y| format!("--{}", y) == s)
                                || x.shorts.iter().any(|y| format!("-{}", y) == s))
                    })
                })
        });
        if !last_is_arg_name {
            let level = *active.last().unwrap();
            let repeat = crate::props::c05::repeatable_leaves(level);
            let pre = &typed[2..];
            let direct_fields: Vec<&Node> = match &level.body {
                Node::Seq(xs) => xs.iter().collect(),
                other => vec![other],
            };
            for f in direct_fields {
                // only leaves that are a field of their own (possibly under arity wrappers)
                let leaf = {
                    let mut cur = f;
                    loop {
                        match cur {
                            Node::Named(x) => break Some(x),
                            Node::Optional { n, .. }
                            | Node::Many { n, .. }
                            | Node::Some { n, .. }
                            | Node::Count(n)
                            | Node::Last(n)
                            | Node::Fallback { n, .. }
                            | Node::FallbackWith { n, .. }
                            | Node::Guard { n, .. }
                            | Node::Map(n)
                            | Node::Boxed(n)
                            | Node::HideUsage(n)
                            | Node::CustomUsage(n, _)
                            | Node::GroupHelp(n, _)
                            | Node::WithGroupHelp(n, _)
                            | Node::Complete { n, .. }
                            | Node::CompleteShell(n, _) => cur = n,
                            _ => break None,
                        }
                    }
                };
                let x = match leaf {
                    Some(x) => x,
                    None => continue,
                };
                let long = match x.longs.first() {
                    Some(l) => l,
                    None => continue,
                };
                if !long.starts_with(pre) {
                    continue;
                }
                // already given?
                let given = case.prefix.iter().any(|it| {
                    let s = String::from_utf8_lossy(it).into_owned();
                    let n = s.split('=').next().unwrap_or("").to_owned();
                    x.longs.iter().any(|y| format!("--{}", y) == n)
                        || x.shorts.iter().any(|y| {
                            let sh = format!("-{}", y);
                            n == sh || (x.is_arg() && s.starts_with(&sh) && !s.starts_with("--"))
                        })
                });
                if given && !repeat.contains(&x.id) {
                    continue;
                }
                let want = format!("--{}", long);
                if !parsed.rows.iter().any(|r| r.0 == want) {
                    return fail(
                        "applicable-name-not-offered",
                        format!("{} extends {:?}, is visible, not given yet, but is not offered", want, typed),
                    );
                }
                ctx.class("completeness-checked");
            }
        }
    }
    // metamorphic completeness: an unrelated switch of the active level (a field of its own,
    // not given yet) written just before the typed word changes nothing but its own row
    if case.clean_prefix && !dangling && !via_hidden_command && tvalue.is_none() {
        let level = *active.last().unwrap();
        let mut has_adjacent = false;
        level.body.walk(false, &mut |n| match n {
            Node::Adjacent(_) => has_adjacent = true,
            Node::Cmd(c) if c.adjacent => has_adjacent = true,
            _ => {}
        });
        let direct_fields: Vec<&Node> = match &level.body {
            Node::Seq(xs) => xs.iter().collect(),
            other => vec![other],
        };
        let sw = direct_fields.iter().find_map(|f| match f {
            Node::Named(x) if x.kind == NamedKind::Switch => {
                let given = case.prefix.iter().any(|it| {
                    let s = String::from_utf8_lossy(it).into_owned();
                    x.longs.iter().any(|y| format!("--{}", y) == s)
                        || x.shorts.iter().any(|y| format!("-{}", y) == s)
                });
                if given {
                    None
                } else {
                    Some(x)
                }
            }
            _ => None,
        });
        if let (Some(x), false) = (sw, has_adjacent) {
            let name = preferred(x);
            let mut argv2 = case.prefix.clone();
            argv2.push(name.clone().into_bytes());
            argv2.push(case.typed.clone().into_bytes());
            let out2 = run_cfg(
                &parser,
                &argv2,
                &RunCfg {
                    name: None,
                    comp: Some(0),
                },
            );
            ctx.eval(1);
            ctx.class("unrelated-switch-probe");
            if let Outcome::Completion(t2) = &out2 {
                let p2 = parse_rev0(t2);
                // names of enclosing levels come and go with the depth of the deepest hint
                // (they are allowed, not required): compare what belongs to the active level
                let own_names: Vec<String> = level
                    .body
                    .named_leaves(false)
                    .iter()
                    .map(|l| preferred(l))
                    .collect();
                let mine = |r: &(String, String, String, String)| -> bool {
                    r.0 != name
                        && (!r.0.starts_with('-')
                            || own_names
                                .iter()
                                .any(|n| r.0 == *n || r.0.starts_with(&format!("{}=", n))))
                };
                let rows = |p: &Parsed| -> Vec<String> {
                    let mut v: Vec<String> = p
                        .rows
                        .iter()
                        .filter(|r| mine(r))
                        .map(|r| format!("{}|{}", r.0, r.1))
                        .collect();
                    v.sort();
                    v.dedup();
                    v
                };
                let (r1, r2) = (rows(&parsed), rows(&p2));
                // a lone row is printed in another format: compare candidates only then
                let same = r1 == r2
                    || (parsed.rows.len() <= 2 || p2.rows.len() <= 2) && {
                        let c = |p: &Parsed| -> Vec<String> {
                            let mut v: Vec<String> =
                                p.rows.iter().filter(|r| mine(r)).map(|r| r.0.clone()).collect();
                            v.sort();
                            v.dedup();
                            v
                        };
                        c(&parsed) == c(&p2)
                    };
                if !same {
                    return fail(
                        "candidates-change-after-an-unrelated-switch",
                        format!(
                            "with {} written before the typed word the candidates are {:?}, without it {:?}\ncompletion output with it:\n{}",
                            name, r2, r1, t2
                        ),
                    );
                }
            }
        }
    }

    // completeness for a freshly typed command prefix: the active level takes no positional, the
    // commands are a field of their own (alone, or a choice between commands only), none of them
    // has been entered (the active level is the innermost one) and the previous item is not an
    // argument name waiting for its value
    if case.clean_prefix && !typed.starts_with('-') && !via_hidden_command && !dangling {
        let level = *active.last().unwrap();
        let vis = things(level);
        let has_pos = vis.iter().any(|v| matches!(v.thing, Thing::Pos(_)));
        fn strip(n: &Node) -> &Node {
            let mut cur = n;
            loop {
                match cur {
                    Node::Optional { n, .. }
                    | Node::Fallback { n, .. }
                    | Node::FallbackWith { n, .. }
                    | Node::Map(n)
                    | Node::Boxed(n)
                    | Node::Hide(n)
                    | Node::HideUsage(n)
                    | Node::CustomUsage(n, _)
                    | Node::GroupHelp(n, _)
                    | Node::WithGroupHelp(n, _) => cur = n,
                    _ => break cur,
                }
            }
        }
        let direct_fields: Vec<&Node> = match &level.body {
            Node::Seq(xs) => xs.iter().collect(),
            other => vec![other],
        };
        let mut own_cmds: Vec<&CmdSpec> = Vec::new();
        for f in direct_fields {
            match strip(f) {
                Node::Cmd(c) => own_cmds.push(c),
                Node::Alt(bs) if bs.iter().all(|b| matches!(strip(b), Node::Cmd(_))) => {
                    for b in bs {
                        if let Node::Cmd(c) = strip(b) {
                            own_cmds.push(c);
                        }
                    }
                }
                _ => {}
            }
        }
        if !has_pos {
            for c in own_cmds {
                let v = vis.iter().find(|v| matches!(v.thing, Thing::Cmd(x) if std::ptr::eq(x, c)));
                let visible = v.map_or(false, |v| !v.hidden && !v.in_adjacent && !v.grouped);
                if !visible || c.adjacent || !c.name.starts_with(typed) {
                    continue;
                }
                if !parsed.rows.iter().any(|r| r.0 == c.name) {
                    return fail(
                        "applicable-command-not-offered",
                        format!(
                            "command {:?} extends {:?}, is visible, no command entered at this level, but is not offered",
                            c.name, typed
                        ),
                    );
                }
                ctx.class("command-completeness-checked");
            }
        }
    }
    Verdict::Pass
}


// ---------------------------------------------------------------------------------------------
// second family: a name that is an alternative to a positional item, `(FILE | --stdin)`.
// A freshly typed "", `-`, `--` or `--pre` starts a name: the named alternative must be offered
// whatever precedes the word (a switch given before, the name of the command holding the choice)
// ---------------------------------------------------------------------------------------------

pub struct PosAltCase {
    pub level: Level,
    pub argv: Vec<Vec<u8>>,
    pub want: Vec<String>,
}

pub fn decode_posalt(bytes: &[u8]) -> PosAltCase {
    let mut u = Un::new(bytes);
    let mut names = Names::new();
    names.ascii_only = true;
    let mut fields: Vec<Node> = Vec::new();
    let mut switches: Vec<NamedSpec> = Vec::new();
    for _ in 0..u.below(3) {
        let n = gen_named_leaf(&mut u, &mut names, NamedKind::Switch);
        switches.push(n.clone());
        fields.push(Node::Named(n));
    }
    let named = if u.bool() {
        gen_named_leaf(&mut u, &mut names, NamedKind::ReqFlag)
    } else {
        gen_named_leaf(
            &mut u,
            &mut names,
            NamedKind::Arg {
                ty: Ty::Str,
                metavar: "URL".into(),
                adjacent: false,
            },
        )
    };
    let pos = Node::Pos(PosSpec {
        id: names.id(),
        metavar: "FILE".into(),
        ty: Ty::Str,
        help: None,
        strict: Strictness::Unrestricted,
    });
    let alt = if u.bool() {
        Node::Alt(vec![pos, Node::Named(named.clone())])
    } else {
        Node::Alt(vec![Node::Named(named.clone()), pos])
    };
    fields.push(alt);
    let inner = Level::simple(Node::Seq(fields));
    let in_cmd = u.chance(110);
    let mut argv: Vec<Vec<u8>> = Vec::new();
    let level = if in_cmd {
        let name = names.cmd(&mut u);
        argv.push(name.as_bytes().to_vec());
        let other = names.cmd(&mut u);
        Level::simple(Node::Seq(vec![Node::Alt(vec![
            Node::Cmd(Box::new(CmdSpec {
                name,
                shorts: Vec::new(),
                longs: Vec::new(),
                help: None,
                adjacent: false,
                level: inner,
            })),
            Node::Cmd(Box::new(CmdSpec {
                name: other,
                shorts: Vec::new(),
                longs: Vec::new(),
                help: None,
                adjacent: false,
                level: Level::simple(Node::Seq(vec![Node::Pure("other".into())])),
            })),
        ])]))
    } else {
        inner
    };
    let mut want: Vec<String> = Vec::new();
    for sw in &switches {
        if u.bool() {
            let o = Occ {
                leaf: sw.id,
                alias: pick_alias(&mut u, sw),
                value: None,
                adjacent_only: false,
            };
            argv.extend(spell(&o, Spelling::Detached));
        } else if sw.longs.first().is_some() {
            want.push(preferred(sw));
        }
    }
    let typed: String = match (u.below(4), named.longs.first()) {
        (0, _) => String::new(),
        (1, _) => "-".into(),
        (2, _) => "--".into(),
        (_, Some(l)) => format!("--{}", l.chars().take(1 + u.below(l.chars().count())).collect::<String>()),
        (_, None) => "--".into(),
    };
    if named.longs.first().is_some() {
        want.push(preferred(&named));
    }
    // only names that extend the typed text are expected
    let want: Vec<String> = want
        .into_iter()
        .filter(|w| typed.is_empty() || typed == "-" || w.starts_with(&typed))
        .collect();
    argv.push(typed.into_bytes());
    PosAltCase { level, argv, want }
}

fn check_posalt(bytes: &[u8], ctx: &mut Ctx) -> Verdict {
    let case = decode_posalt(bytes);
    let parser = match guarded(|| {
        let p = build_level(&case.level);
        p.check_invariants(false);
        p
    }) {
        Ok(p) => p,
        Err(_) => return Verdict::Skip("definition rejected by check_invariants"),
    };
    let out = run_cfg(
        &parser,
        &case.argv,
        &RunCfg {
            name: None,
            comp: Some(0),
        },
    );
    ctx.eval(1);
    ctx.class("family:name-or-positional");
    if case.argv.len() >= 2 {
        ctx.nontrivial(fnv_str(&format!("{:?}{:?}", case.level, case.argv)));
    }
    let text = match &out {
        Outcome::Completion(t) => t.clone(),
        Outcome::Panic { at, msg } => return Verdict::fail(format!("panic@{}", at), msg.clone()),
        other => {
            return Verdict::fail(
                format!("completion-request-answered-with-{}", other.class()),
                format!("{:?} -> {}", show_argv(&case.argv), other.short()),
            )
        }
    };
    let parsed = parse_rev0(&text);
    for w in &case.want {
        if !parsed.rows.iter().any(|r| r.0 == *w) {
            return Verdict::fail(
                "applicable-name-not-offered/alternative-to-a-positional",
                format!(
                    "{} on {:?}: {} is visible, not given, extends the typed word, but is not offered\ncompletion output:\n{}",
                    show_level(&case.level),
                    show_argv(&case.argv),
                    w,
                    text
                ),
            );
        }
    }
    Verdict::Pass
}

impl Prop for C14 {
    fn id(&self) -> &'static str {
        "C14"
    }
    fn cases(&self) -> (u64, u64) {
        (400_000, 2_000_000)
    }
    fn rule(&self) -> &'static str {
        "choice bytes -> broad definition (flags, arguments and positionals with deterministic \
         prefix-filtering completers or shell completers, alternatives, adjacent groups, group_help, \
         hidden items, nested commands) -> a sentence, cut at a generated position (sometimes with \
         one earlier item replaced by an unknown flag), followed by the item being typed: empty, -, \
         --, a proper prefix of a long name, an exact short name, name=, name=prefix, a value \
         prefix, a command-name prefix, a plain word; run with set_comp(0). Oracle: the outcome is \
         completion output; the revision-0 rows are parsed and every row must be a visible name of \
         a level on the chain of commands entered that matches the typed text (long extends the \
         typed --prefix, or preferred spelling of the exactly typed short, or anything for empty/-), \
         a command of those levels extending the typed word, a value returned by a completer of \
         those levels extending the typed value (possibly in name=value form for the typed name), \
         or a metavariable of those levels; never a hidden name, never a name of a level not \
         entered; and for a typed --prefix in option position after a clean prefix every visible \
         long name that is a field of its own at the active level, extends the prefix and is not \
         given yet (or is repeatable) is offered. Non-trivial: >=2 items before the typed one and \
         inside a subcommand or a value position; distinct by hash of (definition, line)."
    }
    fn assumptions(&self) -> Vec<&'static str> {
        vec![
            "completeness is asserted only for items that are a field of their own (not members of alternatives, nested groups or adjacent groups), where the statement is unambiguous",
            "strict positionals are not generated, so bpaf's own `--` separator suggestion does not occur",
        ]
    }
    fn check(&self, bytes: &[u8], ctx: &mut Ctx) -> Verdict {
        // one case in eight belongs to the second family
        if bytes.first().map_or(false, |b| b % 8 == 7) {
            return check_posalt(&bytes[1..], ctx);
        }
        let case = decode(bytes);
        check_case(&case, ctx)
    }
    fn regressions(&self) -> Vec<Regression> {
        vec![Regression {
            name: "name-equals-for-a-subcommand-argument-typed-at-the-parent",
            run: reg_name_eq,
        }]
    }
    fn describe(&self, bytes: &[u8]) -> Value {
        if bytes.first().map_or(false, |b| b % 8 == 7) {
            let c = decode_posalt(&bytes[1..]);
            return json!({
                "family": "a name that is an alternative to a positional item",
                "definition": show_level(&c.level),
                "argv": show_argv(&c.argv),
                "names_that_must_be_offered": c.want,
            });
        }
        let case = decode(bytes);
        json!({
            "definition": show_level(&case.level),
            "items_before": show_argv(&case.prefix),
            "typed": case.typed,
            "variant": case.variant,
        })
    }
}

fn reg_name_eq(ctx: &mut Ctx) -> Verdict {
    use crate::mk::*;
    let sub = lvl(seq(vec![rf("", &["alpha"]), fallback(arg("", &["beta"], Ty::Str))]));
    let mut level = lvl(seq(vec![alt(vec![cmd("run", sub)])]));
    assign_ids(&mut level);
    let case = Case {
        level,
        sentence: Vec::new(),
        prefix: Vec::new(),
        typed: "--beta=".into(),
        variant: "name-equals",
        clean_prefix: true,
    };
    check_case(&case, ctx)
}
