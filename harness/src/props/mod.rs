use crate::engine::Prop;

pub mod c01;
pub mod c02;
pub mod c03;
pub mod c04;
pub mod c05;
pub mod c06;
pub mod c07;
pub mod c08;
pub mod c09;
pub mod c10;
pub mod c11;
pub mod c18;
pub mod c12;
pub mod c13;
pub mod c14;
pub mod c15;
pub mod c16;
pub mod c17;
pub mod c19;
pub mod c20;

pub fn all() -> Vec<Box<dyn Prop>> {
    vec![Box::new(c01::C01), Box::new(c02::C02), Box::new(c03::C03), Box::new(c04::C04), Box::new(c05::C05), Box::new(c06::C06), Box::new(c07::C07), Box::new(c08::C08), Box::new(c09::C09), Box::new(c10::C10), Box::new(c11::C11), Box::new(c18::C18), Box::new(c12::C12), Box::new(c13::C13), Box::new(c14::C14), Box::new(c15::C15), Box::new(c16::C16), Box::new(c17::C17), Box::new(c19::C19), Box::new(c20::C20)]
}

pub fn find(id: &str) -> Option<Box<dyn Prop>> {
    all().into_iter().find(|p| p.id() == id)
}
