//! C07 — alternatives are exclusive and chosen by what the user typed.

use serde_json::{json, Value};

use crate::build::build_level;
use crate::engine::{Ctx, Prop, Verdict};
use crate::gen::*;
use crate::outcome::{guarded, run, show_argv, Outcome};
use crate::spec::*;
use crate::un::{fnv_str, Un};
use crate::value::V;

pub struct C07;

const C07_ENV: &str = "BPAF_VERIF_C07_FLAG";

#[derive(Clone, Debug, PartialEq, Eq)]
pub enum AltKind {
    /// required flag
    F(NamedSpec),
    /// argument (string)
    G(NamedSpec),
    /// group of required named items
    S(Vec<NamedSpec>),
    /// command with at most one own flag
    C(CmdSpec),
    /// always succeeds: switch
    Wsw(NamedSpec),
    /// always succeeds: optional argument
    Wopt(NamedSpec),
}

#[derive(Clone, Copy, Debug, PartialEq, Eq)]
pub enum Wrap {
    Bare,
    Optional,
    Many,
    Some,
}

#[derive(Clone, Debug)]
pub enum Atom {
    Occ(Occ),
    Cmd(String),
}

pub struct Case {
    pub level: Level,
    pub alts: Vec<AltKind>,
    pub wrap: Wrap,
    pub siblings: Vec<Node>,
    pub atoms: Vec<Atom>,
    pub scenario: &'static str,
    /// the variable of the env-backed flag alternative is set while the line is parsed
    pub env_set: bool,
}

fn str_arg(u: &mut Un, names: &mut Names) -> NamedSpec {
    gen_named_leaf(
        u,
        names,
        NamedKind::Arg {
            ty: Ty::Str,
            metavar: "ARG".into(),
            adjacent: false,
        },
    )
}

fn node_of(a: &AltKind) -> Node {
    match a {
        AltKind::F(n) | AltKind::G(n) | AltKind::Wsw(n) => Node::Named(n.clone()),
        AltKind::S(ns) => Node::Seq(ns.iter().cloned().map(Node::Named).collect()),
        AltKind::C(c) => Node::Cmd(Box::new(c.clone())),
        AltKind::Wopt(n) => Node::Optional {
            n: Node::Named(n.clone()).b(),
            catch: false,
        },
    }
}

fn occ(u: &mut Un, names: &mut Names, n: &NamedSpec) -> Occ {
    Occ {
        leaf: n.id,
        alias: pick_alias(u, n),
        value: if n.is_arg() {
            Some(format!("v{}", names.val()).into_bytes())
        } else {
            None
        },
        adjacent_only: false,
    }
}

/// atoms of one complete (or, with `drop`, partial) instance of an alternative
fn instance(u: &mut Un, names: &mut Names, a: &AltKind, partial: bool) -> Vec<Atom> {
    match a {
        AltKind::F(n) | AltKind::G(n) | AltKind::Wsw(n) | AltKind::Wopt(n) => {
            vec![Atom::Occ(occ(u, names, n))]
        }
        AltKind::S(ns) => {
            let mut v: Vec<Atom> = ns.iter().map(|n| Atom::Occ(occ(u, names, n))).collect();
            if partial {
                let at = u.below(v.len());
                v.remove(at);
            }
            let perm = u.permutation(v.len());
            perm.into_iter().map(|i| v[i].clone()).collect()
        }
        AltKind::C(c) => {
            let all = c.all_names();
            let mut v = vec![Atom::Cmd(u.pick(&all).clone())];
            for l in c.level.body.named_leaves(false) {
                if u.bool() {
                    v.push(Atom::Occ(occ(u, names, l)));
                }
            }
            v
        }
    }
}

pub fn decode(bytes: &[u8]) -> Case {
    let mut u = Un::new(bytes);
    let mut names = Names::new();
    let wrap = *u.pick(&[Wrap::Bare, Wrap::Bare, Wrap::Optional, Wrap::Many, Wrap::Some]);
    let repeated = matches!(wrap, Wrap::Many | Wrap::Some);
    let n_sib = u.below(4);
    let mut siblings = Vec::new();
    for _ in 0..n_sib {
        siblings.push(match u.below(3) {
            0 => Node::Named(gen_named_leaf(&mut u, &mut names, NamedKind::Switch)),
            1 => Node::Optional {
                n: Node::Named(str_arg(&mut u, &mut names)).b(),
                catch: false,
            },
            _ => Node::Named(str_arg(&mut u, &mut names)),
        });
    }
    let n_alt = 2 + u.below(3);
    let all_w = !repeated && u.chance(40);
    let mut alts = Vec::new();
    for _ in 0..n_alt {
        let k = if all_w {
            4 + u.below(2)
        } else if repeated {
            // commands under many/some only make sense as adjacent blocks
            u.weighted(&[3, 3, 3, 3])
        } else {
            u.weighted(&[3, 3, 3, 2, 1, 1])
        };
        alts.push(match k {
            0 => AltKind::F(gen_named_leaf(&mut u, &mut names, NamedKind::ReqFlag)),
            1 => AltKind::G(str_arg(&mut u, &mut names)),
            2 => {
                let m = 2 + u.below(2);
                AltKind::S(
                    (0..m)
                        .map(|_| {
                            if u.bool() {
                                gen_named_leaf(&mut u, &mut names, NamedKind::ReqFlag)
                            } else {
                                str_arg(&mut u, &mut names)
                            }
                        })
                        .collect(),
                )
            }
            3 => {
                let name = names.cmd(&mut u);
                let adjacent = repeated || u.chance(40);
                let own = if u.bool() {
                    let mut sw = gen_named_leaf(&mut u, &mut names, NamedKind::Switch);
                    // inside the command a short name may be reused that an argument among the
                    // alternatives also has: `(-l N | run [-l])`
                    let reuse = alts.iter().find_map(|a: &AltKind| match a {
                        AltKind::G(n) => n.shorts.first().copied(),
                        _ => None,
                    });
                    // (not for adjacent commands: an item behind their block could then be read
                    // both ways)
                    if let (Some(c), true, false) = (reuse, u.chance(90), adjacent) {
                        if sw.longs.is_empty() {
                            sw.longs.push(names.long(&mut u));
                        }
                        sw.shorts = vec![c];
                    }
                    vec![Node::Named(sw)]
                } else {
                    vec![Node::Pure("none".into())]
                };
                AltKind::C(CmdSpec {
                    name,
                    shorts: Vec::new(),
                    longs: Vec::new(),
                    help: None,
                    adjacent,
                    level: Level::simple(Node::Seq(own)),
                })
            }
            4 => AltKind::Wsw(gen_named_leaf(&mut u, &mut names, NamedKind::Switch)),
            _ => AltKind::Wopt(str_arg(&mut u, &mut names)),
        });
    }
    // one required-flag alternative may be backed by an environment variable; the variable is
    // only set on lines that give exactly that alternative (what was typed still wins)
    let env_alt: Option<usize> = if !repeated && !all_w && u.chance(60) {
        alts.iter().position(|a| matches!(a, AltKind::F(_)))
    } else {
        None
    };
    if let Some(i) = env_alt {
        if let AltKind::F(n) = &mut alts[i] {
            n.envs.push(C07_ENV.to_owned());
        }
    }
    let alt = Node::Alt(alts.iter().map(node_of).collect());
    let wrapped = match wrap {
        Wrap::Bare => alt,
        Wrap::Optional => Node::Optional {
            n: alt.b(),
            catch: false,
        },
        Wrap::Many => Node::Many {
            n: alt.b(),
            catch: false,
        },
        Wrap::Some => Node::Some {
            n: alt.b(),
            catch: false,
            msg: "need one".into(),
        },
    };
    let mut fields = siblings.clone();
    fields.push(wrapped);
    let level = Level::simple(Node::Seq(fields));

    // the line: sibling items plus instances of alternatives
    let mut floating: Vec<Vec<Atom>> = Vec::new();
    for s in &siblings {
        match s {
            Node::Named(n) if n.is_arg() => floating.push(vec![Atom::Occ(occ(&mut u, &mut names, n))]),
            Node::Named(n) => {
                if u.bool() {
                    floating.push(vec![Atom::Occ(occ(&mut u, &mut names, n))]);
                }
            }
            Node::Optional { n, .. } => {
                if let (Node::Named(n), true) = (&**n, u.bool()) {
                    floating.push(vec![Atom::Occ(occ(&mut u, &mut names, n))]);
                }
            }
            _ => {}
        }
    }
    let mut cmd_tail: Vec<Atom> = Vec::new();
    let adjacent_names: Vec<String> = alts
        .iter()
        .filter_map(|a| match a {
            AltKind::C(c) if c.adjacent => Some(c.all_names()),
            _ => None,
        })
        .flatten()
        .collect();
    let push_inst = |inst: Vec<Atom>, floating: &mut Vec<Vec<Atom>>, cmd_tail: &mut Vec<Atom>| {
        if let Some(Atom::Cmd(name)) = inst.first() {
            if adjacent_names.contains(name) {
                // the block of an adjacent command stays contiguous but may stand anywhere
                floating.push(inst);
            } else {
                cmd_tail.extend(inst);
            }
        } else {
            for a in inst {
                floating.push(vec![a]);
            }
        }
    };
    let scenario;
    let mut env_set = false;
    if repeated {
        let k = u.weighted(&[2, 3, 3, 2]);
        for _ in 0..k {
            let a = u.pick(&alts).clone();
            let inst = instance(&mut u, &mut names, &a, false);
            push_inst(inst, &mut floating, &mut cmd_tail);
        }
        if u.chance(40) {
            if let Some(a) = alts.iter().find(|a| matches!(a, AltKind::S(_))) {
                let inst = instance(&mut u, &mut names, a, true);
                push_inst(inst, &mut floating, &mut cmd_tail);
                scenario = "repeated+partial-group";
            } else {
                scenario = "repeated";
            }
        } else {
            scenario = "repeated";
        }
    } else {
        match u.weighted(&[2, 5, 2, 4, 2]) {
            0 => scenario = "no-alternative-item",
            1 => {
                let a = u.pick(&alts).clone();
                env_set = match (&a, env_alt) {
                    (AltKind::F(n), Some(i)) => matches!(&alts[i], AltKind::F(m) if m.id == n.id),
                    _ => false,
                };
                let inst = instance(&mut u, &mut names, &a, false);
                push_inst(inst, &mut floating, &mut cmd_tail);
                scenario = "one-alternative";
            }
            2 => {
                if let Some(a) = alts.iter().find(|a| matches!(a, AltKind::S(_))) {
                    let inst = instance(&mut u, &mut names, a, true);
                    push_inst(inst, &mut floating, &mut cmd_tail);
                    scenario = "partial-group";
                } else {
                    scenario = "no-alternative-item";
                }
            }
            3 => {
                let i = u.below(alts.len());
                let mut j = u.below(alts.len() - 1);
                if j >= i {
                    j += 1;
                }
                for k in [i, j] {
                    let a = alts[k].clone();
                    let inst = instance(&mut u, &mut names, &a, false);
                    push_inst(inst, &mut floating, &mut cmd_tail);
                }
                scenario = "two-alternatives";
            }
            _ => {
                let a = u.pick(&alts).clone();
                for _ in 0..2 {
                    let inst = instance(&mut u, &mut names, &a, false);
                    push_inst(inst, &mut floating, &mut cmd_tail);
                }
                scenario = "same-alternative-twice";
            }
        }
    }
    let perm = u.permutation(floating.len());
    let mut atoms: Vec<Atom> = Vec::new();
    for i in perm {
        atoms.extend(floating[i].iter().cloned());
    }
    atoms.extend(cmd_tail);
    Case {
        level,
        alts,
        wrap,
        siblings,
        atoms,
        scenario,
        env_set,
    }
}

fn render(u: &mut Un, atoms: &[Atom], level: &Level) -> Vec<Vec<u8>> {
    // a short name that is a flag in one place and an argument in another cannot take a glued
    // value (`-av1` is reported as ambiguous, by design)
    let (flags, args) = level.visible_shorts();
    let mut out = Vec::new();
    for a in atoms {
        match a {
            Atom::Cmd(c) => out.push(c.as_bytes().to_vec()),
            Atom::Occ(o) => {
                let mut ss = spellings_for(o);
                if let Alias::Short(c) = &o.alias {
                    if flags.contains(c) && args.contains(c) {
                        ss.retain(|s| *s != Spelling::Glued);
                    }
                }
                out.extend(spell(o, *u.pick(&ss)));
            }
        }
    }
    out
}

/// expected outcome by the documented rule; None = failure on stderr
pub fn expected(case: &Case) -> Option<V> {
    // positions of the occurrences of every leaf, in order
    let pos_of = |leaf: usize, used: &[bool]| -> Option<usize> {
        case.atoms.iter().enumerate().position(|(i, a)| match a {
            Atom::Occ(o) => o.leaf == leaf && !used[i],
            _ => false,
        })
    };
    let mut used = vec![false; case.atoms.len()];
    let val_at = |i: usize| -> V {
        match &case.atoms[i] {
            Atom::Occ(o) => match &o.value {
                Some(v) => V::Str(String::from_utf8_lossy(v).into_owned()),
                None => V::Unit,
            },
            _ => V::Unit,
        }
    };
    // siblings
    let mut vals = Vec::new();
    for s in &case.siblings {
        match s {
            Node::Named(n) => {
                let p = pos_of(n.id, &used);
                match (&n.kind, p) {
                    (NamedKind::Switch, Some(i)) => {
                        used[i] = true;
                        vals.push(V::Bool(true));
                    }
                    (NamedKind::Switch, None) => vals.push(V::Bool(false)),
                    (_, Some(i)) => {
                        used[i] = true;
                        vals.push(val_at(i));
                    }
                    (_, None) => return None,
                }
            }
            Node::Optional { n, .. } => {
                if let Node::Named(n) = &**n {
                    match pos_of(n.id, &used) {
                        Some(i) => {
                            used[i] = true;
                            vals.push(V::some(val_at(i)));
                        }
                        None => vals.push(V::none()),
                    }
                }
            }
            _ => {}
        }
    }
    // try to form the next instance of alternative k: positions it would take
    let next_instance = |k: usize, used: &[bool]| -> Option<(Vec<usize>, V)> {
        match &case.alts[k] {
            AltKind::F(n) => pos_of(n.id, used).map(|i| (vec![i], V::Unit)),
            AltKind::G(n) => pos_of(n.id, used).map(|i| (vec![i], val_at(i))),
            AltKind::Wsw(n) => pos_of(n.id, used).map(|i| (vec![i], V::Bool(true))),
            AltKind::Wopt(n) => pos_of(n.id, used).map(|i| (vec![i], V::some(val_at(i)))),
            AltKind::S(ns) => {
                let mut ps = Vec::new();
                let mut vs = Vec::new();
                for n in ns {
                    let i = pos_of(n.id, used)?;
                    ps.push(i);
                    vs.push(val_at(i));
                }
                Some((ps, V::Tup(vs)))
            }
            AltKind::C(c) => {
                // the command name must be the first item not used by anything before it
                let first_free = (0..case.atoms.len()).find(|i| !used[*i])?;
                match &case.atoms[first_free] {
                    Atom::Cmd(name) if c.all_names().contains(name) && c.adjacent => {
                        // the block: the name and the command's own items directly behind it
                        let mut ps = vec![first_free];
                        let own = c.level.body.named_leaves(false);
                        let mut seen = Vec::new();
                        for (i, a) in case.atoms.iter().enumerate().skip(first_free + 1) {
                            match a {
                                Atom::Occ(o)
                                    if !used[i]
                                        && own.iter().any(|l| l.id == o.leaf)
                                        && !seen.contains(&o.leaf) =>
                                {
                                    seen.push(o.leaf);
                                    ps.push(i);
                                }
                                _ => break,
                            }
                        }
                        let mut inner: Vec<V> =
                            own.iter().map(|l| V::Bool(seen.contains(&l.id))).collect();
                        if own.is_empty() {
                            inner.push(V::Const("none".into()));
                        }
                        Some((ps, V::Cmd(c.name.clone(), Box::new(V::Tup(inner)))))
                    }
                    Atom::Cmd(name) if c.all_names().contains(name) => {
                        // everything to the right must belong to the command
                        let mut ps = vec![first_free];
                        let own = c.level.body.named_leaves(false);
                        let mut inner = Vec::new();
                        let mut seen = Vec::new();
                        for (i, a) in case.atoms.iter().enumerate().skip(first_free + 1) {
                            match a {
                                Atom::Occ(o) if own.iter().any(|l| l.id == o.leaf) => {
                                    if seen.contains(&o.leaf) {
                                        return None;
                                    }
                                    seen.push(o.leaf);
                                    ps.push(i);
                                }
                                _ => return None,
                            }
                        }
                        for l in &own {
                            inner.push(V::Bool(seen.contains(&l.id)));
                        }
                        if own.is_empty() {
                            inner.push(V::Const("none".into()));
                        }
                        Some((ps, V::Cmd(c.name.clone(), Box::new(V::Tup(inner)))))
                    }
                    _ => None,
                }
            }
        }
    };
    let alt_value = match case.wrap {
        Wrap::Bare | Wrap::Optional => {
            // which alternatives have items on the line at all
            let mut present: Vec<usize> = Vec::new();
            for (k, a) in case.alts.iter().enumerate() {
                let leaves: Vec<usize> = match a {
                    AltKind::F(n) | AltKind::G(n) | AltKind::Wsw(n) | AltKind::Wopt(n) => vec![n.id],
                    AltKind::S(ns) => ns.iter().map(|n| n.id).collect(),
                    AltKind::C(c) => {
                        let mut v: Vec<usize> =
                            c.level.body.named_leaves(false).iter().map(|l| l.id).collect();
                        v.push(usize::MAX - k);
                        v
                    }
                };
                let has = case.atoms.iter().any(|x| match x {
                    Atom::Occ(o) => leaves.contains(&o.leaf),
                    Atom::Cmd(name) => match a {
                        AltKind::C(c) => c.all_names().contains(name),
                        _ => false,
                    },
                });
                if has {
                    present.push(k);
                }
            }
            match present.len() {
                0 => {
                    // first alternative that succeeds without input
                    match case
                        .alts
                        .iter()
                        .position(|a| matches!(a, AltKind::Wsw(_) | AltKind::Wopt(_)))
                    {
                        Some(k) => {
                            let v = match &case.alts[k] {
                                AltKind::Wsw(_) => V::Bool(false),
                                _ => V::none(),
                            };
                            let v = V::Alt(k, Box::new(v));
                            if case.wrap == Wrap::Optional {
                                // a value produced without consuming anything is not "present"
                                V::none()
                            } else {
                                v
                            }
                        }
                        None => {
                            if case.wrap == Wrap::Optional {
                                V::none()
                            } else {
                                return None;
                            }
                        }
                    }
                }
                1 => {
                    let k = present[0];
                    let (ps, v) = next_instance(k, &used)?;
                    for p in ps {
                        used[p] = true;
                    }
                    let v = V::Alt(k, Box::new(v));
                    if case.wrap == Wrap::Optional {
                        V::some(v)
                    } else {
                        v
                    }
                }
                _ => return None,
            }
        }
        Wrap::Many | Wrap::Some => {
            let mut xs = Vec::new();
            loop {
                let mut best: Option<(usize, Vec<usize>, V)> = None;
                for k in 0..case.alts.len() {
                    if let Some((ps, v)) = next_instance(k, &used) {
                        let m = *ps.iter().min().unwrap();
                        if best.as_ref().map_or(true, |b| m < *b.1.iter().min().unwrap()) {
                            best = Some((k, ps, v));
                        }
                    }
                }
                match best {
                    Some((k, ps, v)) => {
                        for p in ps {
                            used[p] = true;
                        }
                        xs.push(V::Alt(k, Box::new(v)));
                    }
                    None => break,
                }
            }
            if case.wrap == Wrap::Some && xs.is_empty() {
                return None;
            }
            V::List(xs)
        }
    };
    vals.push(alt_value);
    if used.iter().any(|x| !x) {
        return None;
    }
    Some(V::Tup(vals))
}

impl Prop for C07 {
    fn id(&self) -> &'static str {
        "C07"
    }
    fn cases(&self) -> (u64, u64) {
        (400_000, 2_000_000)
    }
    fn rule(&self) -> &'static str {
        "choice bytes -> a choice over 2-4 alternatives with disjoint names (required flag, \
         argument, group of 2-3 required named items, command (plain, or adjacent - the only kind \
         under many/some - whose block may stand anywhere on the line), or an always-succeeding \
         switch / optional argument), bare, optional, many or some, next to 0-3 sibling fields -> line built \
         from a scenario (no item, one complete instance, partial group, two different \
         alternatives, same alternative twice; for many/some 0-3 instances, possibly a trailing \
         partial group) with all items shuffled (group members interleave freely) and spelled \
         randomly. Oracle: an independent evaluation of the documented rule - exactly one \
         alternative's complete items -> its value; items of two alternatives or leftovers -> \
         stderr; many/some -> instances in order of their leftmost item; nothing typed -> first \
         listed alternative that can succeed. Non-trivial: items of >=2 alternatives or >=2 \
         instances on the line; distinct by hash of (definition, argv)."
    }
    fn check(&self, bytes: &[u8], ctx: &mut Ctx) -> Verdict {
        let case = decode(bytes);
        // optional(alternatives that always succeed) is a shape whose value the documentation
        // does not fix (Some(default) or None); skip it
        if case.wrap == Wrap::Optional
            && case
                .alts
                .iter()
                .any(|a| matches!(a, AltKind::Wsw(_) | AltKind::Wopt(_)))
        {
            return Verdict::Skip("optional over always-succeeding alternatives");
        }
        let parser = match guarded(|| {
            let p = build_level(&case.level);
            p.check_invariants(false);
            p
        }) {
            Ok(p) => p,
            Err((at, msg)) => {
                return Verdict::fail(
                    "generator/invariants",
                    format!("check_invariants panicked at {}: {}", at, msg),
                )
            }
        };
        let mut u = Un::new(bytes);
        let argv = render(&mut u, &case.atoms, &case.level);
        // the worker is single threaded and owns its environment
        if case.env_set {
            std::env::set_var(C07_ENV, "1");
            ctx.class("env-backed-flag-typed-while-its-variable-is-set");
        } else {
            std::env::remove_var(C07_ENV);
        }
        let got = run(&parser, &argv);
        // the same definition with every choice spelled `bpaf::choice([..])`, documented as the
        // run-time form of `construct!([..])`: same outcome, judged by the same oracle below
        let via_choice = match guarded(|| crate::build::build_level_via_choice(&case.level)) {
            Ok(p) => run(&p, &argv),
            Err((at, msg)) => Outcome::Panic { at, msg },
        };
        std::env::remove_var(C07_ENV);
        ctx.eval(2);
        if let Outcome::Panic { at, msg } = &got {
            return Verdict::fail(format!("panic@{}", at), msg.clone());
        }
        if via_choice != got {
            return Verdict::fail(
                format!("choice()-differs-from-construct/{}", case.scenario),
                format!(
                    "{:?}: construct!([..]) gives {} but choice([..]) gives {}",
                    show_argv(&argv),
                    got.short(),
                    via_choice.short()
                ),
            );
        }
        ctx.class(&format!("scenario:{}", case.scenario));
        ctx.class(&format!("wrap:{:?}", case.wrap));
        if matches!(
            case.scenario,
            "two-alternatives" | "repeated" | "repeated+partial-group" | "same-alternative-twice"
        ) && argv.len() >= 2
        {
            ctx.nontrivial(fnv_str(&format!("{:?}{:?}", case.level, argv)));
        }
        let exp = expected(&case);
        match (&exp, &got) {
            (Some(v), Outcome::Value(g)) if v == g => Verdict::Pass,
            (None, Outcome::Stderr(t)) if !t.trim().is_empty() => Verdict::Pass,
            (Some(v), g) => Verdict::fail(
                format!("wrong-alternative-or-rejected/{}/{:?}", case.scenario, case.wrap),
                format!(
                    "{:?} should give {} but bpaf returned {}",
                    show_argv(&argv),
                    v,
                    g.short()
                ),
            ),
            (None, g) => Verdict::fail(
                format!("mixed-alternatives-accepted/{}/{:?}", case.scenario, case.wrap),
                format!(
                    "{:?} mixes or leaves items and should fail, bpaf returned {}",
                    show_argv(&argv),
                    g.short()
                ),
            ),
        }
    }
    fn describe(&self, bytes: &[u8]) -> Value {
        let case = decode(bytes);
        let mut u = Un::new(bytes);
        let argv = render(&mut u, &case.atoms, &case.level);
        json!({
            "definition": show_level(&case.level),
            "argv": show_argv(&argv),
            "scenario": case.scenario,
            "expected": expected(&case).map(|v| v.to_string()),
        })
    }
}
