//! C04 — running a parser is total, terminating and pure.

use serde_json::{json, Value};

use crate::build::build_level;
use crate::engine::{Ctx, Prop, Regression, Verdict};
use crate::gen::Names;
use crate::outcome::{guarded, run_cfg, show_argv, Outcome, RunCfg};
use crate::spec::*;
use crate::un::{fnv, Un};
use crate::value::V;
use crate::wild::*;

pub struct C04;

pub const SIG_HIDDEN_USAGE_BUG: &str = "usage-bug-hidden-from-check_invariants";

fn strip_hide(n: &Node) -> Node {
    let mut out = n.clone();
    fn go(n: &mut Node) {
        if let Node::Hide(inner) = n {
            let mut i = (**inner).clone();
            go(&mut i);
            *n = i;
            return;
        }
        match n {
            Node::Cmd(c) => go(&mut c.level.body),
            Node::Seq(xs) | Node::Alt(xs) | Node::Adjacent(xs) => {
                for x in xs {
                    go(x);
                }
            }
            Node::Optional { n, .. }
            | Node::Many { n, .. }
            | Node::Some { n, .. }
            | Node::Collect { n, .. }
            | Node::Count(n)
            | Node::Last(n)
            | Node::Fallback { n, .. }
            | Node::FallbackWith { n, .. }
            | Node::Guard { n, .. }
            | Node::Parse { n, .. }
            | Node::Map(n)
            | Node::HideUsage(n)
            | Node::CustomUsage(n, _)
            | Node::GroupHelp(n, _)
            | Node::WithGroupHelp(n, _)
            | Node::Complete { n, .. }
            | Node::CompleteShell(n, _)
            | Node::Boxed(n) => go(n),
            Node::Hide(_) | Node::Named(_) | Node::Pos(_) | Node::Pure(_) | Node::Fail(_) | Node::Any(_) => {}
        }
    }
    go(&mut out);
    out
}

pub fn strip_hide_level(l: &Level) -> Level {
    Level {
        body: strip_hide(&l.body),
        info: l.info.clone(),
    }
}

#[derive(Clone, Debug, PartialEq, Eq)]
pub enum Mode {
    Parse { named: bool },
    Help { full: bool, named: bool },
    Version,
    Complete { rev: usize, named: bool },
    Markdown,
    Html,
    Manpage,
}

#[derive(Clone, Debug)]
pub struct Step {
    pub mode: Mode,
    pub argv: Vec<Vec<u8>>,
    /// declared environment variables that are set during this step
    pub env: Vec<(String, Vec<u8>)>,
}

pub struct Case {
    pub level: Level,
    pub steps: Vec<Step>,
    pub excluded: usize,
}

fn gen_mode(u: &mut Un) -> Mode {
    match u.weighted(&[6, 2, 1, 5, 1, 1, 1]) {
        0 => Mode::Parse { named: u.bool() },
        1 => Mode::Help {
            full: u.bool(),
            named: u.bool(),
        },
        2 => Mode::Version,
        3 => Mode::Complete {
            rev: *u.pick(&[0usize, 1, 7, 8, 9]),
            named: u.bool(),
        },
        4 => Mode::Markdown,
        5 => Mode::Html,
        _ => Mode::Manpage,
    }
}

pub fn decode(bytes: &[u8]) -> Case {
    let mut u = Un::new(bytes);
    let mut names = Names::new();
    let level = gen_wild_level(&mut u, &mut names, 0);
    let n = 1 + u.weighted(&[4, 3, 2]);
    let mut steps = Vec::new();
    let mut excluded = 0;
    let declared = declared_envs(&level);
    for _ in 0..n {
        let mode = gen_mode(&mut u);
        let mut argv = gen_wild_argv(&mut u, &level);
        excluded += sanitize_argv(&mut argv);
        let env = gen_env(&mut u, &declared);
        steps.push(Step { mode, argv, env });
    }
    Case {
        level,
        steps,
        excluded,
    }
}

/// result of one step in comparable form
#[derive(Clone, Debug, PartialEq, Eq)]
pub enum StepOut {
    Run(Outcome),
    Text(String),
    Panic(String, String),
}

fn apply_env(env: &[(String, Vec<u8>)]) {
    use std::os::unix::ffi::OsStringExt;
    let old: Vec<std::ffi::OsString> = std::env::vars_os()
        .map(|(k, _)| k)
        .filter(|k| k.to_string_lossy().starts_with("BPAF_VERIF_W"))
        .collect();
    for k in old {
        std::env::remove_var(k);
    }
    for (k, v) in env {
        std::env::set_var(k, std::ffi::OsString::from_vec(v.clone()));
    }
}

pub fn run_step(p: &bpaf::OptionParser<V>, level: &Level, s: &Step) -> StepOut {
    // the worker is single threaded and owns its environment
    apply_env(&s.env);
    let r = run_step_inner(p, level, s);
    apply_env(&[]);
    r
}

fn run_step_inner(p: &bpaf::OptionParser<V>, level: &Level, s: &Step) -> StepOut {
    let mut argv = s.argv.clone();
    let cfg = match &s.mode {
        Mode::Parse { named } => RunCfg {
            name: if *named { Some("app") } else { None },
            comp: None,
        },
        Mode::Help { full, named } => {
            let h = format!("--{}", level.info.help_longs()[0]).into_bytes();
            argv.push(h.clone());
            if *full {
                argv.push(h);
            }
            RunCfg {
                name: if *named { Some("app") } else { None },
                comp: None,
            }
        }
        Mode::Version => {
            argv.push(format!("--{}", level.info.version_longs()[0]).into_bytes());
            RunCfg::default()
        }
        Mode::Complete { rev, named } => RunCfg {
            name: if *named { Some("app") } else { None },
            comp: Some(*rev),
        },
        Mode::Markdown | Mode::Html | Mode::Manpage => {
            #[cfg(feature = "docgen")]
            {
                let r = guarded(|| match &s.mode {
                    Mode::Markdown => p.render_markdown("app"),
                    Mode::Html => p.render_html("app"),
                    _ => p.render_manpage("app", bpaf::doc::Section::General, None, None, None),
                });
                return match r {
                    Ok(t) => StepOut::Text(t),
                    Err((at, msg)) => StepOut::Panic(at, msg),
                };
            }
            #[cfg(not(feature = "docgen"))]
            {
                return StepOut::Text(String::new());
            }
        }
    };
    StepOut::Run(run_cfg(p, &argv, &cfg))
}

fn rich_definition(level: &Level) -> bool {
    has_node(level, &|n| {
        matches!(
            n,
            Node::Adjacent(_) | Node::Alt(_) | Node::Hide(_) | Node::Cmd(_)
        )
    }) || level
        .body
        .named_leaves(true)
        .iter()
        .any(|l| l.help.as_ref().map_or(false, |h| !h.is_plain()))
}

fn rich_argv(argv: &[Vec<u8>]) -> bool {
    argv.iter().any(|a| {
        std::str::from_utf8(a).is_err()
            || a.is_empty()
            || a.iter().all(|b| *b == b'-')
            || a.contains(&b'=')
    })
}

pub fn check_case(case: &Case, ctx: &mut Ctx) -> Verdict {
    let parser = match guarded(|| build_level(&case.level)) {
        Ok(p) => p,
        Err((at, msg)) => {
            return Verdict::fail(
                format!("panic-while-building@{}", at),
                format!("building the parser panicked: {}", msg),
            )
        }
    };
    // only invariant-respecting definitions are inside the quantifier
    if guarded(|| parser.check_invariants(false)).is_err() {
        ctx.class("rejected-by-check_invariants");
        return Verdict::Skip("check_invariants rejects the definition");
    }
    ctx.class("passes-check_invariants");
    // a structural usage error that check_invariants cannot see because it sits under hide()
    let hidden_usage_bug = {
        let bare = strip_hide_level(&case.level);
        guarded(|| build_level(&bare).check_invariants(false)).is_err()
    };
    if hidden_usage_bug {
        if ctx.is_known(SIG_HIDDEN_USAGE_BUG) {
            ctx.excluded("usage error hidden from check_invariants by hide()");
            return Verdict::Skip("usage error under hide()");
        }
        ctx.class("usage-error-under-hide");
    }
    let mut outs: Vec<StepOut> = Vec::new();
    for s in &case.steps {
        let o = run_step(&parser, &case.level, s);
        ctx.eval(1);
        ctx.class(match &s.mode {
            Mode::Parse { .. } => "mode:parse",
            Mode::Help { .. } => "mode:help",
            Mode::Version => "mode:version",
            Mode::Complete { .. } => "mode:completion",
            Mode::Markdown => "mode:markdown",
            Mode::Html => "mode:html",
            Mode::Manpage => "mode:manpage",
        });
        let panic = match &o {
            StepOut::Panic(at, msg) => Some((at.clone(), msg.clone())),
            StepOut::Run(Outcome::Panic { at, msg }) => Some((at.clone(), msg.clone())),
            _ => None,
        };
        if let Some((at, msg)) = panic {
            let sig = if hidden_usage_bug && msg.contains("bpaf usage BUG") {
                SIG_HIDDEN_USAGE_BUG.to_owned()
            } else {
                format!("panic@{}", at)
            };
            return Verdict::fail(
                sig,
                format!(
                    "mode {:?} argv {:?}: panicked at {}: {}",
                    s.mode,
                    show_argv(&s.argv),
                    at,
                    msg
                ),
            );
        }
        if rich_definition(&case.level)
            && (rich_argv(&s.argv) || !matches!(s.mode, Mode::Parse { .. } | Mode::Help { .. }))
        {
            ctx.nontrivial(fnv(
                format!("{:?}{:?}{:?}", case.level, s.mode, s.argv).as_bytes(),
            ));
        }
        outs.push(o);
    }
    // purity: run the whole history again on the same OptionParser, then the first step once more
    for (i, s) in case.steps.iter().enumerate() {
        let o = run_step(&parser, &case.level, s);
        ctx.eval(1);
        if o != outs[i] {
            return Verdict::fail(
                "outcome-depends-on-history",
                format!(
                    "step {} ({:?} {:?}) gave {:?} first and {:?} when run again on the same OptionParser",
                    i,
                    s.mode,
                    show_argv(&s.argv),
                    outs[i],
                    o
                ),
            );
        }
    }
    // and on a freshly built parser
    for (i, s) in case.steps.iter().enumerate() {
        if let Ok(fresh) = guarded(|| build_level(&case.level)) {
            let o = run_step(&fresh, &case.level, s);
            ctx.eval(1);
            if o != outs[i] {
                return Verdict::fail(
                    "outcome-depends-on-earlier-runs",
                    format!(
                        "step {} ({:?} {:?}, environment {:?}) on the OptionParser that had already run {} other steps: {:?}; on a fresh OptionParser: {:?}",
                        i,
                        s.mode,
                        show_argv(&s.argv),
                        s.env.iter().map(|(k, v)| format!("{}={}", k, String::from_utf8_lossy(v))).collect::<Vec<_>>(),
                        i,
                        outs[i],
                        o
                    ),
                );
            }
        }
    }
    Verdict::Pass
}

impl Prop for C04 {
    fn id(&self) -> &'static str {
        "C04"
    }
    fn max_len(&self) -> usize {
        512
    }
    fn cases(&self) -> (u64, u64) {
        (250_000, 4_000_000)
    }
    fn hang_limit_s(&self) -> Option<u64> {
        Some(60)
    }
    fn rule(&self) -> &'static str {
        "choice bytes -> the widest definition generator (every wrapper on every node incl. catch, \
         count/last/many over non-consuming parsers, alternatives, adjacent groups with any lead, \
         adjacent and nested commands, hidden items, pure/fail, env names, completers and shell \
         completers, styled multi-fragment docs with newlines/code blocks/control characters, custom \
         help/version names, usage override, max_width 0..400, fallback_to_usage) -> history of 1-3 \
         steps, each a mode {parse, help short/full, version, completion rev 0/1/7/8/9, markdown, \
         html, manpage} x {with/without application name} and an argument vector of arbitrary byte \
         strings (declared names, =forms, lone dashes, empty strings, invalid UTF-8, 1500-letter \
         clusters, random bytes). Oracle: every call returns (no panic; worker watchdog and signal \
         detection for hangs, aborts, stack overflow, process exit), and the whole history replayed \
         on the same OptionParser and on a fresh one gives identical outcomes. Definitions that \
         check_invariants rejects are outside the quantifier (counted). Non-trivial: definition with \
         an alternative/adjacent/hidden/command node or a styled doc, and a vector with a non-UTF-8, \
         empty, dash-only or `=` item or a completion/doc mode; distinct by hash of (definition, \
         mode, vector)."
    }
    fn assumptions(&self) -> Vec<&'static str> {
        vec![
            "items starting with --bpaf-complete- are removed from generated vectors: --bpaf-complete-style-* and unknown revisions leave the process by documented protocol (counted as excluded)",
            "termination is attacked by bounded generation plus a 180 s no-progress watchdog; a hang is reported as inconclusive (exit 2), never as a violation",
        ]
    }
    fn check(&self, bytes: &[u8], ctx: &mut Ctx) -> Verdict {
        let case = decode(bytes);
        for _ in 0..case.excluded {
            ctx.excluded("--bpaf-complete-* item removed");
        }
        check_case(&case, ctx)
    }
    fn describe(&self, bytes: &[u8]) -> Value {
        let case = decode(bytes);
        json!({
            "definition": show_level(&case.level),
            "history": case.steps.iter().map(|s| json!({"mode": format!("{:?}", s.mode), "argv": show_argv(&s.argv), "env": s.env.iter().map(|(k, v)| format!("{}={}", k, String::from_utf8_lossy(v))).collect::<Vec<_>>()})).collect::<Vec<_>>(),
        })
    }
    fn regressions(&self) -> Vec<Regression> {
        vec![
            Regression {
                name: "fish-completion-without-app-name",
                run: reg_fish_no_name,
            },
            Regression {
                name: "first-line-of-multi-fragment-doc",
                run: reg_first_line,
            },
            Regression {
                name: "adjacent-group-with-pure-lead",
                run: reg_adjacent_pure,
            },
            Regression {
                name: "completion-of-empty-line-with-env-backed-flag",
                run: reg_comp_empty_env,
            },
            Regression {
                name: "hidden-adjacent-group-with-pure-lead",
                run: reg_adjacent_pure_hidden,
            },
        ]
    }
}

fn one(level: Level, mode: Mode, argv: &[&str], ctx: &mut Ctx) -> Verdict {
    let case = Case {
        level,
        steps: vec![Step {
            mode,
            argv: crate::outcome::argv_of(argv),
            env: Vec::new(),
        }],
        excluded: 0,
    };
    check_case(&case, ctx)
}

fn reg_fish_no_name(ctx: &mut Ctx) -> Verdict {
    use crate::mk::*;
    one(
        lvl(seq(vec![sw("a", &["alpha"])])),
        Mode::Complete {
            rev: 9,
            named: false,
        },
        &["-"],
        ctx,
    )
}

fn reg_first_line(ctx: &mut Ctx) -> Verdict {
    use crate::mk::*;
    let mut sub = lvl(seq(vec![sw("s", &[])]));
    sub.info.descr = Some(DocSpec(vec![
        (StyleK::Text, "é\nñ".into()),
        (StyleK::Literal, "lit".into()),
    ]));
    one(
        lvl(seq(vec![alt(vec![cmd("sub", sub)])])),
        Mode::Help {
            full: false,
            named: false,
        },
        &[],
        ctx,
    )
}

fn reg_adjacent_pure_hidden(ctx: &mut Ctx) -> Verdict {
    use crate::mk::*;
    one(
        lvl(seq(vec![hide(adj(vec![Node::Pure("x".into()), sw("f", &[])]))])),
        Mode::Parse { named: false },
        &["-f"],
        ctx,
    )
}

fn reg_adjacent_pure(ctx: &mut Ctx) -> Verdict {
    use crate::mk::*;
    one(
        lvl(seq(vec![adj(vec![Node::Pure("x".into()), sw("f", &[])])])),
        Mode::Parse { named: false },
        &["-f"],
        ctx,
    )
}

fn reg_comp_empty_env(ctx: &mut Ctx) -> Verdict {
    use crate::mk::*;
    let case = Case {
        level: lvl(seq(vec![with_env(sw("", &["flag"]), "BPAF_VERIF_W0")])),
        steps: vec![Step {
            mode: Mode::Complete {
                rev: 0,
                named: false,
            },
            argv: Vec::new(),
            env: vec![("BPAF_VERIF_W0".into(), b"1".to_vec())],
        }],
        excluded: 0,
    };
    check_case(&case, ctx)
}
