//! C10 — asking for help or version always wins and never runs the program.

use serde_json::{json, Value};

use crate::broad::*;
use crate::build::build_level;
use crate::engine::{Ctx, Prop, Regression, Verdict};
use crate::gen::*;
use crate::outcome::{guarded, run, run_cfg, show_argv, Outcome, RunCfg};
use crate::spec::*;
use crate::un::{fnv_str, Un};

pub struct C10;

pub const SIG_ADJ_DANGLING: &str =
    "help-between-argument-name-and-value-inside-adjacent-command-describes-parent";
pub const SIG_BEHIND_ADJACENT: &str = "help-loses-to-error/behind-a-failing-adjacent-command";

pub struct Case {
    pub level: Level,
    pub argv: Vec<Vec<u8>>,
    pub mutations: Vec<String>,
}

fn cfg() -> BroadCfg {
    BroadCfg {
        max_fields: 4,
        version: true,
        custom_help: true,
        help: HelpGen::Markers,
        adjacent_cmds: true,
        mixed_alt: true,
        wrapped_groups: true,
        ..BroadCfg::default()
    }
}

/// the same help/version flag names on every level
fn unify_names(l: &mut Level, help: &Option<(Vec<char>, Vec<String>)>) {
    fn go(n: &mut Node, help: &Option<(Vec<char>, Vec<String>)>) {
        match n {
            Node::Cmd(c) => {
                c.level.info.help_names = help.clone();
                go(&mut c.level.body, help);
            }
            Node::Seq(xs) | Node::Alt(xs) | Node::Adjacent(xs) => {
                for x in xs {
                    go(x, help);
                }
            }
            Node::Optional { n, .. }
            | Node::Many { n, .. }
            | Node::Some { n, .. }
            | Node::Collect { n, .. }
            | Node::Count(n)
            | Node::Last(n)
            | Node::Fallback { n, .. }
            | Node::FallbackWith { n, .. }
            | Node::Guard { n, .. }
            | Node::Parse { n, .. }
            | Node::Map(n)
            | Node::Hide(n)
            | Node::HideUsage(n)
            | Node::CustomUsage(n, _)
            | Node::GroupHelp(n, _)
            | Node::WithGroupHelp(n, _)
            | Node::Complete { n, .. }
            | Node::CompleteShell(n, _)
            | Node::Boxed(n) => go(n, help),
            Node::Named(_) | Node::Pos(_) | Node::Pure(_) | Node::Fail(_) | Node::Any(_) => {}
        }
    }
    go(&mut l.body, help);
}

pub fn decode(bytes: &[u8]) -> Case {
    let mut u = Un::new(bytes);
    let mut names = Names::new();
    let mut level = gen_broad_level(&mut u, &mut names, &cfg(), 1);
    let help = level.info.help_names.clone();
    unify_names(&mut level, &help);
    let sent = SentGen {
        names: &mut names,
        mode: ValMode::Tokens,
        in_group: false,
    }
    .level(&mut u, &level);
    let prep = prepare(&sent);
    let lay = layout(&mut u, &prep, true, true);
    let opts = SpellOpts {
        clusters: true,
        no_glued_non_utf8: true,
        no_hidden_in_cluster: crate::props::c02::hidden_leaves(&level),
    };
    let mut ex = 0;
    let plan = plan_spelling(&mut u, &lay, &opts, &mut ex);
    let mut st = SpellStats::default();
    let (mut argv, _) = render(&lay, &plan, &opts, &mut st);
    let mut mutations = Vec::new();
    if u.chance(140) {
        crate::props::c01::mutate(&mut u, &level, &mut argv, &mut mutations);
    }
    Case {
        level,
        argv,
        mutations,
    }
}

/// every level reachable by command names together with its path
pub fn levels_with_paths(root: &Level) -> Vec<(Vec<String>, &Level)> {
    fn go<'a>(l: &'a Level, path: &mut Vec<String>, out: &mut Vec<(Vec<String>, &'a Level)>) {
        out.push((path.clone(), l));
        for c in l.body.commands(false) {
            path.push(c.name.clone());
            go(&c.level, path, out);
            path.pop();
        }
    }
    let mut out = Vec::new();
    go(root, &mut Vec::new(), &mut out);
    out
}

/// help text of a level, obtained from that level alone
pub fn standalone_help(level: &Level, path: &[String], item: &[u8]) -> Outcome {
    let p = build_level(level);
    let name = path.join(" ");
    let cfg = RunCfg {
        name: if path.is_empty() { None } else { Some(&name) },
        comp: None,
    };
    run_cfg(&p, &[item.to_vec()], &cfg)
}

/// over-approximation of the levels that can be active at each position: walk the words, every
/// word that names a command of a level already in the set adds that command's level
fn chain_at<'a>(root: &'a Level, argv: &[Vec<u8>], upto: usize) -> Vec<(Vec<String>, &'a Level)> {
    let mut set: Vec<(Vec<String>, &Level)> = vec![(Vec::new(), root)];
    for item in &argv[..upto] {
        let s = match std::str::from_utf8(item) {
            Ok(s) => s,
            Err(_) => continue,
        };
        let mut add = Vec::new();
        for (path, l) in &set {
            for c in l.body.commands(false) {
                if c.all_names().iter().any(|n| n == s) {
                    let mut p = path.clone();
                    p.push(c.name.clone());
                    add.push((p, &c.level));
                }
            }
        }
        for a in add {
            if !set.iter().any(|(p, _)| *p == a.0) {
                set.push(a);
            }
        }
    }
    set
}

/// exact level for an unmutated line: follow command names in order
fn exact_at<'a>(root: &'a Level, argv: &[Vec<u8>], upto: usize) -> (Vec<String>, &'a Level) {
    let mut cur = root;
    let mut path = Vec::new();
    let mut skip_value = false;
    for item in &argv[..upto] {
        if skip_value {
            skip_value = false;
            continue;
        }
        let s = match std::str::from_utf8(item) {
            Ok(s) => s,
            Err(_) => continue,
        };
        // detached argument values are not command names
        if s.starts_with('-') && !s.contains('=') {
            let leaves = cur.body.named_leaves(false);
            let is_arg_name = leaves.iter().any(|l| {
                l.is_arg()
                    && (l.longs.iter().any(|x| format!("--{}", x) == s)
                        || l.shorts.iter().any(|x| format!("-{}", x) == s))
            });
            if is_arg_name {
                skip_value = true;
            }
            continue;
        }
        if let Some(c) = cur
            .body
            .commands(false)
            .into_iter()
            .find(|c| c.all_names().iter().any(|n| n == s))
        {
            path.push(c.name.clone());
            cur = &c.level;
        }
    }
    (path, cur)
}

fn classify_stderr(t: &str) -> &'static str {
    if t.contains("is not expected in this context") {
        "not-expected"
    } else if t.contains("requires an argument") {
        "requires-an-argument"
    } else if t.starts_with("expected") {
        "expected-item"
    } else if t.contains("couldn't parse") {
        "couldnt-parse"
    } else if t.contains("cannot be used") {
        "conflict-or-twice"
    } else if t.contains("no such") {
        "no-such"
    } else {
        "other"
    }
}

pub fn check_line(
    level: &Level,
    argv: &[Vec<u8>],
    mutated: bool,
    ctx: &mut Ctx,
) -> Verdict {
    let parser = match guarded(|| {
        let p = build_level(level);
        p.check_invariants(false);
        p
    }) {
        Ok(p) => p,
        Err((at, msg)) => {
            return Verdict::fail(
                "generator/invariants",
                format!("check_invariants panicked at {}: {}", at, msg),
            )
        }
    };
    let help_items: Vec<Vec<u8>> = {
        let mut v = Vec::new();
        for l in level.info.help_longs() {
            v.push(format!("--{}", l).into_bytes());
        }
        for s in level.info.help_shorts() {
            v.push(format!("-{}", s).into_bytes());
        }
        v
    };
    // chains of adjacent commands: the usage line carries the whole chain, and options of the
    // enclosing level (its help and version flags included) may follow a block
    let adjacent_names: Vec<String> = level
        .body
        .commands(true)
        .iter()
        .filter(|c| c.adjacent)
        .flat_map(|c| c.all_names())
        .collect();
    let has_adj = !adjacent_names.is_empty();
    let adj_left = |p: usize| -> bool {
        argv[..p].iter().any(|a| {
            std::str::from_utf8(a).map_or(false, |s| adjacent_names.iter().any(|n| n == s))
        })
    };
    // is position p directly inside the contiguous block of an adjacent command - no declared
    // name of another level between that command's name and p? (Some(false): behind a block, or an earlier block exists)
    let inside_adj_block = |p: usize| -> Option<bool> {
        let spell = |l: &NamedSpec| -> Vec<String> {
            l.longs
                .iter()
                .map(|x| format!("--{}", x))
                .chain(l.shorts.iter().map(|x| format!("-{}", x)))
                .collect()
        };
        let all: Vec<String> = level.body.named_leaves(true).iter().flat_map(|l| spell(l)).collect();
        let mut between: Vec<String> = Vec::new();
        for j in (0..p).rev() {
            let s = String::from_utf8_lossy(&argv[j]).into_owned();
            if let Some(c) = level
                .body
                .commands(true)
                .into_iter()
                .find(|c| c.adjacent && c.all_names().iter().any(|n| *n == s))
            {
                let own: Vec<String> =
                    c.level.body.named_leaves(true).iter().flat_map(|l| spell(l)).collect();
                let foreign = between.iter().any(|w| {
                    let head = w.split('=').next().unwrap_or("").to_owned();
                    let hit = |names: &Vec<String>| {
                        names.iter().any(|n| {
                            *n == head
                                || (n.chars().count() == 2 && w.starts_with(n.as_str()) && !w.starts_with("--"))
                        })
                    };
                    hit(&all) && !hit(&own)
                });
                // an earlier block that fails is the recorded finding as well
                let earlier_block = adj_left(j);
                return Some(!foreign && !earlier_block);
            }
            between.push(s);
        }
        None
    };
    let strip_usage = |t: &str| -> String {
        let mut out = String::new();
        let mut skipping = false;
        for line in t.lines() {
            if line.starts_with("Usage") {
                skipping = true;
            }
            if skipping {
                if line.trim().is_empty() {
                    skipping = false;
                }
                continue;
            }
            out.push_str(line);
            out.push('\n');
        }
        out
    };
    let base = run(&parser, argv);
    ctx.eval(1);
    let base_fails = !matches!(base, Outcome::Value(_));
    let left_end = argv
        .iter()
        .position(|a| a.as_slice() == b"--")
        .unwrap_or(argv.len());
    let mut helps: Vec<(Vec<String>, String)> = Vec::new();
    for p in 0..=left_end {
        let item = &help_items[p % help_items.len()];
        let mut a = argv.to_vec();
        a.insert(p, item.clone());
        let out = run(&parser, &a);
        ctx.eval(1);
        let (path, _) = exact_at(level, argv, p);
        if base_fails || !path.is_empty() {
            ctx.nontrivial(fnv_str(&format!("{:?}{:?}{}", level, argv, p)));
        }
        if !path.is_empty() {
            ctx.class("help-after-command-name");
        }
        if base_fails {
            ctx.class("help-on-failing-line");
        }
        match &out {
            Outcome::Stdout { text, .. } => {
                // on a clean line a help flag inside the contiguous block of an adjacent command
                // must describe that command
                let in_block: Option<(Vec<String>, &Level)> = if !mutated && has_adj {
                    let root_names: Vec<String> = level
                        .body
                        .named_leaves(false)
                        .iter()
                        .flat_map(|l| {
                            l.longs
                                .iter()
                                .map(|x| format!("--{}", x))
                                .chain(l.shorts.iter().map(|x| format!("-{}", x)))
                                .collect::<Vec<_>>()
                        })
                        .collect();
                    let mut found = None;
                    for j in (0..p).rev() {
                        let s = String::from_utf8_lossy(&argv[j]).into_owned();
                        let head = s.split('=').next().unwrap_or("").to_owned();
                        if root_names.iter().any(|n| *n == head || (n.chars().count() == 2 && s.starts_with(n.as_str()) && !s.starts_with("--"))) {
                            break;
                        }
                        if let Some(c) = level
                            .body
                            .commands(false)
                            .into_iter()
                            .find(|c| c.adjacent && c.all_names().iter().any(|n| *n == s))
                        {
                            found = Some((vec![c.name.clone()], &c.level));
                            break;
                        }
                    }
                    found
                } else {
                    None
                };
                let block_check = in_block.is_some();
                let cands: Vec<(Vec<String>, &Level)> = if let Some(b) = in_block {
                    vec![b]
                } else if mutated || has_adj {
                    chain_at(level, argv, p)
                } else {
                    vec![exact_at(level, argv, p)]
                };
                let mut ok = false;
                for (path, l) in &cands {
                    let key = path.clone();
                    let t = match helps.iter().find(|(k, _)| *k == key) {
                        Some((_, t)) => t.clone(),
                        None => {
                            let t = match standalone_help(l, path, &help_items[0]) {
                                Outcome::Stdout { text, .. } => text,
                                other => {
                                    return Verdict::fail(
                                        "standalone-help-not-stdout",
                                        format!("level {:?}: {}", path, other.short()),
                                    )
                                }
                            };
                            helps.push((key, t.clone()));
                            t
                        }
                    };
                    if &t == text || (has_adj && strip_usage(&t) == strip_usage(text)) {
                        ok = true;
                        break;
                    }
                }
                if !ok {
                    // inside an adjacent block: is the item just before the help flag an
                    // argument name of that command still waiting for its value?
                    let dangling = block_check
                        && p > 0
                        && cands[0].1.body.named_leaves(false).iter().any(|l| {
                            let s = String::from_utf8_lossy(&argv[p - 1]).into_owned();
                            l.is_arg()
                                && (l.longs.iter().any(|x| format!("--{}", x) == s)
                                    || l.shorts.iter().any(|x| format!("-{}", x) == s))
                        });
                    return Verdict::fail(
                        if dangling {
                            SIG_ADJ_DANGLING
                        } else if block_check {
                            "help-describes-wrong-level/inside-adjacent-block"
                        } else if mutated {
                            "help-describes-a-level-not-entered"
                        } else {
                            "help-describes-wrong-level"
                        },
                        format!(
                            "{:?}: help text is not the help of {}:\n{}",
                            show_argv(&a),
                            if mutated {
                                "any level on the chain of command names".to_owned()
                            } else {
                                format!("level {:?}", cands[0].0)
                            },
                            text
                        ),
                    );
                }
            }
            Outcome::Panic { at, msg } => {
                return Verdict::fail(format!("panic@{}", at), msg.clone())
            }
            Outcome::Stderr(t) => {
                let depth = exact_at(level, argv, p).0.len();
                return Verdict::fail(
                    if adj_left(p) && inside_adj_block(p) == Some(true) {
                        // nothing of another level between the command name and the flag: not
                        // the recorded finding (that one needs a foreign item splitting the block)
                        "help-loses-to-error/inside-the-block-of-an-adjacent-command".to_owned()
                    } else if adj_left(p) {
                        SIG_BEHIND_ADJACENT.to_owned()
                    } else {
                        format!(
                            "help-loses-to-error/{}/{}",
                            if depth > 0 { "after-command" } else { "top-level" },
                            classify_stderr(t)
                        )
                    },
                    format!(
                        "{:?}: help flag present as an item of its own but the outcome is stderr {:?}",
                        show_argv(&a),
                        t
                    ),
                );
            }
            other => {
                return Verdict::fail(
                    format!("help-ignored/{}", other.class()),
                    format!("{:?} -> {}", show_argv(&a), other.short()),
                )
            }
        }
        // the help flag given twice (the detailed form) wins just the same and describes the
        // same level; probed at a third of the positions
        if (p + argv.len()) % 3 == 0 {
            let mut a2 = a.clone();
            a2.insert(p, item.clone());
            let out2 = run(&parser, &a2);
            ctx.eval(1);
            ctx.class("doubled-help-flag");
            match (&out, &out2) {
                (Outcome::Stdout { text: t1, .. }, Outcome::Stdout { text: t2, .. }) => {
                    if t1.lines().next() != t2.lines().next() {
                        return Verdict::fail(
                            "doubled-help-flag-describes-another-level",
                            format!("{:?}:\n{}\nvs single flag:\n{}", show_argv(&a2), t2, t1),
                        );
                    }
                }
                (_, Outcome::Panic { at, msg }) => {
                    return Verdict::fail(format!("panic@{}", at), msg.clone())
                }
                (Outcome::Stdout { .. }, other) => {
                    return Verdict::fail(
                        if adj_left(p) && inside_adj_block(p) != Some(true) {
                            SIG_BEHIND_ADJACENT.to_owned()
                        } else {
                            format!("doubled-help-flag-loses/{}", other.class())
                        },
                        format!("{:?} -> {}", show_argv(&a2), other.short()),
                    )
                }
                _ => {}
            }
        }
    }

    // help and version flag on the same line: help wins whichever is written first
    if !mutated && !has_adj {
        let p = argv.len().min(left_end) / 2;
        let (_, l) = exact_at(level, argv, p);
        if l.info.version.is_some() {
            let v = format!("--{}", l.info.version_longs()[0]).into_bytes();
            let h = format!("--{}", l.info.help_longs()[0]).into_bytes();
            let mut outs = Vec::new();
            for order in [[h.clone(), v.clone()], [v.clone(), h.clone()]] {
                let mut a = argv.to_vec();
                a.insert(p, order[1].clone());
                a.insert(p, order[0].clone());
                outs.push((a.clone(), run(&parser, &a)));
                ctx.eval(1);
            }
            ctx.class("help-and-version-together");
            let texts: Vec<Option<&String>> = outs
                .iter()
                .map(|(_, o)| match o {
                    Outcome::Stdout { text, .. } => Some(text),
                    _ => None,
                })
                .collect();
            let is_version = |t: &str| t.trim_start().starts_with("Version:");
            match (&texts[0], &texts[1]) {
                (Some(a), Some(b)) if a == b && !is_version(a) => {}
                _ => {
                    return Verdict::fail(
                        "help-and-version-together/order-decides-or-version-wins",
                        format!(
                            "{:?} -> {}\n{:?} -> {}",
                            show_argv(&outs[0].0),
                            outs[0].1.short(),
                            show_argv(&outs[1].0),
                            outs[1].1.short()
                        ),
                    )
                }
            }
        }
    }

    // version flag on clean lines
    if !mutated {
        for p in 0..=left_end {
            let (path, l) = exact_at(level, argv, p);
            let item = format!("--{}", l.info.version_longs()[0]).into_bytes();
            let mut a = argv.to_vec();
            a.insert(p, item);
            let out = run(&parser, &a);
            ctx.eval(1);
            if adj_left(p) {
                // the enclosing level's version flag may legitimately apply here
                continue;
            }
            match (&l.info.version, &out) {
                (Some(v), Outcome::Stdout { text, .. }) => {
                    if text.trim() != format!("Version: {}", v) {
                        return Verdict::fail(
                            "version-text",
                            format!("{:?} -> {:?}", show_argv(&a), text),
                        );
                    }
                    ctx.class("version-configured");
                }
                (Some(_), other) => {
                    return Verdict::fail(
                        format!(
                            "version-loses/{}/{}",
                            if path.is_empty() { "top-level" } else { "after-command" },
                            other.class()
                        ),
                        format!("{:?} -> {}", show_argv(&a), other.short()),
                    )
                }
                (None, Outcome::Stderr(_)) => {
                    ctx.class("version-not-configured");
                }
                (None, Outcome::Panic { at, msg }) => {
                    return Verdict::fail(format!("panic@{}", at), msg.clone())
                }
                (None, other) => {
                    return Verdict::fail(
                        format!("unconfigured-version-flag-accepted/{}", other.class()),
                        format!("{:?} -> {}", show_argv(&a), other.short()),
                    )
                }
            }
        }
    }
    Verdict::Pass
}

impl Prop for C10 {
    fn id(&self) -> &'static str {
        "C10"
    }
    fn cases(&self) -> (u64, u64) {
        (80_000, 800_000)
    }
    fn rule(&self) -> &'static str {
        "choice bytes -> broad definition (adjacent groups, alternatives, subcommands, hidden items, \
         version configured or not per level, default or custom help flag names) -> sentence, with \
         probability ~1/2 made invalid/incomplete by 1-3 item mutations -> the help flag (each of \
         its names in turn) inserted as an item of its own at EVERY position left of `--`. Oracle: \
         the outcome is stdout, never a value or stderr, and its text equals the help obtained from \
         the level alone (for unmutated lines: exactly the level entered at that position; for \
         mutated lines: some level on the chain of command names to the left). On unmutated lines \
         the version flag is inserted the same way: `Version: x` on stdout iff the level entered \
         there configures a version, stderr otherwise. Non-trivial: help on a line that fails \
         without it, or after a command name; distinct by (definition, line, position)."
    }
    fn check(&self, bytes: &[u8], ctx: &mut Ctx) -> Verdict {
        // one case in eight: a choice between a positional branch and subcommands (altcmd.rs)
        if bytes.first().map_or(false, |b| b % 8 == 7) {
            let c = crate::altcmd::decode(&bytes[1..], true);
            if c.argv.len() >= 2 {
                ctx.nontrivial(fnv_str(&format!("{:?}{:?}", c.level, c.argv)));
            }
            return crate::altcmd::check(&c, ctx);
        }
        let case = decode(bytes);
        check_line(&case.level, &case.argv, !case.mutations.is_empty(), ctx)
    }
    fn describe(&self, bytes: &[u8]) -> Value {
        if bytes.first().map_or(false, |b| b % 8 == 7) {
            return crate::altcmd::describe(&crate::altcmd::decode(&bytes[1..], true));
        }
        let case = decode(bytes);
        json!({
            "definition": show_level(&case.level),
            "argv_before_inserting_help": show_argv(&case.argv),
            "mutations": case.mutations,
        })
    }
    fn regressions(&self) -> Vec<Regression> {
        vec![
            Regression {
                name: "help-of-command-under-fallback-in-a-choice-with-positionals",
                run: crate::altcmd::reg_fallback_cmd_help,
            },
            Regression {
                name: "help-after-failing-adjacent-group",
                run: reg_adjacent,
            },
            Regression {
                name: "sub-help-with-missing-parent-field",
                run: reg_parent_missing,
            },
            Regression {
                name: "help-behind-a-failing-adjacent-command",
                run: reg_behind_adjacent,
            },
            Regression {
                name: "help-after-dangling-argument-name-in-adjacent-command",
                run: reg_adj_dangling,
            },
        ]
    }
}

fn reg_adjacent(ctx: &mut Ctx) -> Verdict {
    use crate::mk::*;
    // -p X where X must be a number, as an adjacent group
    let l = lvl(seq(vec![opt(adj(vec![rf("p", &[]), pos("X", Ty::U32)]))]));
    check_line(&l, &crate::outcome::argv_of(&["-p", "zz"]), true, ctx)
}

fn reg_parent_missing(ctx: &mut Ctx) -> Verdict {
    use crate::mk::*;
    let sub = lvl(seq(vec![sw("s", &[])]));
    let l = lvl(seq(vec![
        arg("", &["name"], Ty::Str),
        alt(vec![cmd("sub", sub)]),
    ]));
    check_line(&l, &crate::outcome::argv_of(&["sub"]), false, ctx)
}

fn reg_behind_adjacent(ctx: &mut Ctx) -> Verdict {
    use crate::mk::*;
    let mut build = cmd("build", lvl(seq(vec![pos("ARG", Ty::Str)])));
    if let Node::Cmd(c) = &mut build {
        c.adjacent = true;
    }
    let l = lvl(seq(vec![arg("a", &["alpha"], Ty::Str), many(alt(vec![build]))]));
    // `-a o1` belongs to the top level and is consumed first, so the block of `build` is empty
    check_line(&l, &crate::outcome::argv_of(&["build", "-a", "o1"]), true, ctx)
}

fn reg_adj_dangling(ctx: &mut Ctx) -> Verdict {
    use crate::mk::*;
    let mk = |name: &str, inner: Node| {
        let mut c = cmd(name, lvl(seq(vec![inner])));
        if let Node::Cmd(c) = &mut c {
            c.adjacent = true;
        }
        c
    };
    let l = lvl(seq(vec![many(alt(vec![
        mk("run", opt(arg("", &["alpha"], Ty::Str))),
        mk("build", Node::Pure("unit".into())),
    ]))]));
    check_line(&l, &crate::outcome::argv_of(&["run", "--alpha", "v1"]), false, ctx)
}
