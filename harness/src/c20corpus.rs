//! Feature independent part of C20: decode a case and dump what `run_inner` gives.

use crate::build::build_level;
use crate::gen::Names;
use crate::outcome::{guarded, run_cfg, Outcome, RunCfg};
use crate::spec::Level;
use crate::un::Un;
use crate::wild::{gen_wild_argv, gen_wild_level, sanitize_argv};

pub struct Case {
    pub level: Level,
    pub lines: Vec<(Vec<Vec<u8>>, bool)>,
}

pub fn decode(bytes: &[u8]) -> Case {
    let mut u = Un::new(bytes);
    let mut names = Names::new();
    // long option names make usage lines and terms that have to be wrapped
    names.long_names = true;
    let level = gen_wild_level(&mut u, &mut names, 0);
    let n = 1 + u.below(3);
    let mut lines = Vec::new();
    for _ in 0..n {
        let mut argv = gen_wild_argv(&mut u, &level);
        sanitize_argv(&mut argv);
        match u.below(6) {
            0 => argv.push(format!("--{}", level.info.help_longs()[0]).into_bytes()),
            1 => {
                argv.push(format!("--{}", level.info.help_longs()[0]).into_bytes());
                argv.push(format!("--{}", level.info.help_longs()[0]).into_bytes());
            }
            2 => argv.push(format!("--{}", level.info.version_longs()[0]).into_bytes()),
            _ => {}
        }
        lines.push((argv, u.bool()));
    }
    Case { level, lines }
}

pub fn dump_case(bytes: &[u8]) -> String {
    let case = decode(bytes);
    let parser = match guarded(|| build_level(&case.level)) {
        Ok(p) => p,
        Err((_, msg)) => return format!("build-panic {}", msg.lines().next().unwrap_or("")),
    };
    if guarded(|| parser.check_invariants(false)).is_err() {
        return "rejected-by-check_invariants".to_owned();
    }
    let mut out = String::new();
    for (argv, named) in &case.lines {
        let o = run_cfg(
            &parser,
            argv,
            &RunCfg {
                name: if *named { Some("app") } else { None },
                comp: None,
            },
        );
        let line = match o {
            Outcome::Value(v) => format!("value {:?}", v),
            Outcome::Stdout { text, full } => format!("stdout full={} {:?}", full, text),
            Outcome::Stderr(t) => format!("stderr {:?}", t),
            Outcome::Completion(t) => format!("completion {:?}", t),
            // the location of a panic differs between builds; the message does not
            Outcome::Panic { msg, .. } => format!("panic {:?}", msg.lines().next().unwrap_or("")),
        };
        out.push_str(&line);
        out.push('\n');
    }
    out
}
