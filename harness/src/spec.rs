//! `Spec`: the parser-definition language interpreted into real bpaf parsers.

use crate::value::V;

#[derive(Clone, Copy, Debug, PartialEq, Eq, Hash)]
pub enum Ty {
    Str,
    Os,
    Path,
    U32,
    I64,
}

impl Ty {
    pub fn is_num(self) -> bool {
        matches!(self, Ty::U32 | Ty::I64)
    }
    pub fn is_os(self) -> bool {
        matches!(self, Ty::Os | Ty::Path)
    }
    /// what the field declares: conversion of raw bytes into a value
    pub fn convert(self, raw: &[u8]) -> Result<V, String> {
        match self {
            Ty::Os | Ty::Path => Ok(V::Os(raw.to_vec())),
            Ty::Str => match std::str::from_utf8(raw) {
                Ok(s) => Ok(V::Str(s.to_owned())),
                Err(_) => Err("not utf8".to_owned()),
            },
            Ty::U32 => match std::str::from_utf8(raw) {
                Ok(s) => s
                    .parse::<u32>()
                    .map(|n| V::Num(i64::from(n)))
                    .map_err(|e| e.to_string()),
                Err(_) => Err("not utf8".to_owned()),
            },
            Ty::I64 => match std::str::from_utf8(raw) {
                Ok(s) => s.parse::<i64>().map(V::Num).map_err(|e| e.to_string()),
                Err(_) => Err("not utf8".to_owned()),
            },
        }
    }
}

#[derive(Clone, Copy, Debug, PartialEq, Eq, Hash)]
pub enum StyleK {
    Text,
    Literal,
    Emphasis,
    Invalid,
    Metavar,
    /// the fragment is a document of its own, embedded with `Doc::doc`
    Nested,
    /// embedded with `Doc::em_doc`
    NestedEm,
}

/// A help text: a list of styled fragments; plain text is one `Text` fragment and is passed to
/// bpaf as `&str`.
#[derive(Clone, Debug, PartialEq, Eq, Hash, Default)]
pub struct DocSpec(pub Vec<(StyleK, String)>);

impl DocSpec {
    pub fn plain(s: impl Into<String>) -> Self {
        DocSpec(vec![(StyleK::Text, s.into())])
    }
    pub fn is_plain(&self) -> bool {
        self.0.len() == 1 && self.0[0].0 == StyleK::Text
    }
    pub fn flat(&self) -> String {
        self.0.iter().map(|x| x.1.as_str()).collect()
    }
}

#[derive(Clone, Debug, PartialEq, Eq, Hash)]
pub enum NamedKind {
    Switch,
    /// flag(present, absent) – behaves like a switch with two constants
    Flag,
    ReqFlag,
    Arg {
        ty: Ty,
        metavar: String,
        /// `ParseArgument::adjacent`
        adjacent: bool,
    },
}

#[derive(Clone, Debug, PartialEq, Eq, Hash)]
pub struct NamedSpec {
    /// unique id of the leaf inside the whole definition
    pub id: usize,
    pub shorts: Vec<char>,
    pub longs: Vec<String>,
    pub envs: Vec<String>,
    pub help: Option<DocSpec>,
    pub kind: NamedKind,
}

impl NamedSpec {
    pub fn is_arg(&self) -> bool {
        matches!(self.kind, NamedKind::Arg { .. })
    }
    pub fn first_name(&self) -> String {
        if let Some(l) = self.longs.first() {
            format!("--{}", l)
        } else if let Some(s) = self.shorts.first() {
            format!("-{}", s)
        } else {
            String::new()
        }
    }
}

#[derive(Clone, Copy, Debug, PartialEq, Eq, Hash)]
pub enum Strictness {
    Unrestricted,
    Strict,
    NonStrict,
}

#[derive(Clone, Debug, PartialEq, Eq, Hash)]
pub struct PosSpec {
    pub id: usize,
    pub metavar: String,
    pub ty: Ty,
    pub help: Option<DocSpec>,
    pub strict: Strictness,
}

#[derive(Clone, Debug, PartialEq, Eq, Hash)]
pub struct AnySpec {
    pub metavar: String,
    pub prefixes: Vec<String>,
    pub anywhere: bool,
    pub help: Option<DocSpec>,
}

#[derive(Clone, Debug, PartialEq, Eq, Hash)]
pub struct CmdSpec {
    pub name: String,
    pub shorts: Vec<char>,
    pub longs: Vec<String>,
    pub help: Option<DocSpec>,
    pub adjacent: bool,
    pub level: Level,
}

impl CmdSpec {
    pub fn all_names(&self) -> Vec<String> {
        let mut r = vec![self.name.clone()];
        r.extend(self.longs.iter().cloned());
        r.extend(self.shorts.iter().map(|c| c.to_string()));
        r
    }
}

#[derive(Clone, Debug, PartialEq, Eq, Hash, Default)]
pub struct InfoSpec {
    pub descr: Option<DocSpec>,
    pub header: Option<DocSpec>,
    pub footer: Option<DocSpec>,
    pub usage: Option<DocSpec>,
    pub version: Option<String>,
    /// custom help flag names (shorts, longs), help text
    pub help_names: Option<(Vec<char>, Vec<String>)>,
    pub version_names: Option<(Vec<char>, Vec<String>)>,
    pub max_width: Option<usize>,
    pub fallback_to_usage: bool,
}

impl InfoSpec {
    pub fn help_shorts(&self) -> Vec<char> {
        match &self.help_names {
            Some((s, _)) => s.clone(),
            None => vec!['h'],
        }
    }
    pub fn help_longs(&self) -> Vec<String> {
        match &self.help_names {
            Some((_, l)) => l.clone(),
            None => vec!["help".to_owned()],
        }
    }
    pub fn version_shorts(&self) -> Vec<char> {
        match &self.version_names {
            Some((s, _)) => s.clone(),
            None => vec!['V'],
        }
    }
    pub fn version_longs(&self) -> Vec<String> {
        match &self.version_names {
            Some((_, l)) => l.clone(),
            None => vec!["version".to_owned()],
        }
    }
}

#[derive(Clone, Debug, PartialEq, Eq, Hash)]
pub struct Level {
    pub body: Node,
    pub info: InfoSpec,
}

#[derive(Clone, Debug, PartialEq, Eq, Hash)]
pub enum Pred {
    /// string/os leaf differs from this text; numbers: differs from this number's text
    NotEq(String),
    /// number is below this bound (non numbers pass)
    NumBelow(i64),
    /// always true
    True,
    /// always false
    False,
}

impl Pred {
    pub fn holds(&self, v: &V) -> bool {
        match self {
            Pred::True => true,
            Pred::False => false,
            Pred::NotEq(s) => match v {
                V::Str(x) => x != s,
                V::Os(x) => x.as_slice() != s.as_bytes(),
                V::Num(n) => &n.to_string() != s,
                _ => true,
            },
            Pred::NumBelow(k) => match v {
                V::Num(n) => n < k,
                _ => true,
            },
        }
    }
}

#[derive(Clone, Debug, PartialEq, Eq, Hash)]
pub enum ParseFn {
    /// V::Str -> V::Num through `str::parse::<u32>`; other values pass unchanged
    StrToU32,
    /// V::Str -> V::Num through `str::parse::<i64>`
    StrToI64,
    /// always succeeds, wraps nothing
    Id,
    /// always fails with this message
    Never(String),
}

impl ParseFn {
    pub fn apply(&self, v: V) -> Result<V, String> {
        match self {
            ParseFn::Id => Ok(v),
            ParseFn::Never(m) => Err(m.clone()),
            ParseFn::StrToU32 => match v {
                V::Str(s) => s
                    .parse::<u32>()
                    .map(|n| V::Num(i64::from(n)))
                    .map_err(|e| e.to_string()),
                other => Ok(other),
            },
            ParseFn::StrToI64 => match v {
                V::Str(s) => s.parse::<i64>().map(V::Num).map_err(|e| e.to_string()),
                other => Ok(other),
            },
        }
    }
}

#[derive(Clone, Debug, PartialEq, Eq, Hash)]
pub enum ShellSpec {
    File(Option<String>),
    Dir(Option<String>),
    Raw {
        bash: String,
        zsh: String,
        fish: String,
        elvish: String,
    },
    Nothing,
}

#[derive(Clone, Debug, PartialEq, Eq, Hash)]
pub enum Node {
    Named(NamedSpec),
    Pos(PosSpec),
    Cmd(Box<CmdSpec>),
    Pure(String),
    Fail(String),
    /// `any("META", |s| s.starts_with(one of the prefixes))`, optionally `.anywhere()`
    Any(AnySpec),
    Seq(Vec<Node>),
    Alt(Vec<Node>),
    Optional { n: Box<Node>, catch: bool },
    Many { n: Box<Node>, catch: bool },
    Some { n: Box<Node>, catch: bool, msg: String },
    Collect { n: Box<Node>, catch: bool },
    Count(Box<Node>),
    Last(Box<Node>),
    Fallback { n: Box<Node>, value: String, shown: bool },
    FallbackWith { n: Box<Node>, ok: bool, value: String },
    Guard { n: Box<Node>, pred: Pred, msg: String },
    Parse { n: Box<Node>, f: ParseFn },
    Map(Box<Node>),
    Hide(Box<Node>),
    HideUsage(Box<Node>),
    CustomUsage(Box<Node>, DocSpec),
    GroupHelp(Box<Node>, DocSpec),
    WithGroupHelp(Box<Node>, DocSpec),
    /// `construct!(..).adjacent()`
    Adjacent(Vec<Node>),
    /// dynamic completion: fixed candidates (value, description) filtered by prefix
    Complete {
        n: Box<Node>,
        cands: Vec<(String, Option<String>)>,
        group: Option<String>,
    },
    CompleteShell(Box<Node>, ShellSpec),
    Boxed(Box<Node>),
}

impl Node {
    pub fn b(self) -> Box<Node> {
        Box::new(self)
    }

    /// direct children
    pub fn children(&self) -> Vec<&Node> {
        match self {
            Node::Named(_) | Node::Pos(_) | Node::Cmd(_) | Node::Pure(_) | Node::Fail(_) | Node::Any(_) => {
                Vec::new()
            }
            Node::Seq(xs) | Node::Alt(xs) | Node::Adjacent(xs) => xs.iter().collect(),
            Node::Optional { n, .. }
            | Node::Many { n, .. }
            | Node::Some { n, .. }
            | Node::Collect { n, .. }
            | Node::Count(n)
            | Node::Last(n)
            | Node::Fallback { n, .. }
            | Node::FallbackWith { n, .. }
            | Node::Guard { n, .. }
            | Node::Parse { n, .. }
            | Node::Map(n)
            | Node::Hide(n)
            | Node::HideUsage(n)
            | Node::CustomUsage(n, _)
            | Node::GroupHelp(n, _)
            | Node::WithGroupHelp(n, _)
            | Node::Complete { n, .. }
            | Node::CompleteShell(n, _)
            | Node::Boxed(n) => vec![n],
        }
    }

    /// direct children, mutably
    pub fn children_mut(&mut self) -> Vec<&mut Node> {
        match self {
            Node::Named(_) | Node::Pos(_) | Node::Cmd(_) | Node::Pure(_) | Node::Fail(_) | Node::Any(_) => {
                Vec::new()
            }
            Node::Seq(xs) | Node::Alt(xs) | Node::Adjacent(xs) => xs.iter_mut().collect(),
            Node::Optional { n, .. }
            | Node::Many { n, .. }
            | Node::Some { n, .. }
            | Node::Collect { n, .. }
            | Node::Count(n)
            | Node::Last(n)
            | Node::Fallback { n, .. }
            | Node::FallbackWith { n, .. }
            | Node::Guard { n, .. }
            | Node::Parse { n, .. }
            | Node::Map(n)
            | Node::Hide(n)
            | Node::HideUsage(n)
            | Node::CustomUsage(n, _)
            | Node::GroupHelp(n, _)
            | Node::WithGroupHelp(n, _)
            | Node::Complete { n, .. }
            | Node::CompleteShell(n, _)
            | Node::Boxed(n) => vec![&mut **n],
        }
    }

    /// visit every node of this level and all nested command levels
    pub fn walk<'a>(&'a self, deep: bool, f: &mut dyn FnMut(&'a Node)) {
        f(self);
        if let Node::Cmd(c) = self {
            if deep {
                c.level.body.walk(deep, f);
            }
        }
        for c in self.children() {
            c.walk(deep, f);
        }
    }

    pub fn named_leaves(&self, deep: bool) -> Vec<&NamedSpec> {
        let mut r = Vec::new();
        self.walk(deep, &mut |n| {
            if let Node::Named(x) = n {
                r.push(x);
            }
        });
        r
    }

    pub fn commands(&self, deep: bool) -> Vec<&CmdSpec> {
        let mut r = Vec::new();
        self.walk(deep, &mut |n| {
            if let Node::Cmd(x) = n {
                r.push(&**x);
            }
        });
        r
    }

    pub fn count_kind(&self, deep: bool, pred: &dyn Fn(&Node) -> bool) -> usize {
        let mut c = 0;
        self.walk(deep, &mut |n| {
            if pred(n) {
                c += 1;
            }
        });
        c
    }
}

impl Level {
    pub fn simple(body: Node) -> Level {
        Level {
            body,
            info: InfoSpec::default(),
        }
    }

    /// (short flags, short args) of the whole tree as the tokenizer sees them: hidden parsers
    /// contribute nothing
    pub fn visible_shorts(&self) -> (Vec<char>, Vec<char>) {
        fn go(n: &Node, flags: &mut Vec<char>, args: &mut Vec<char>) {
            match n {
                Node::Hide(_) => {}
                Node::Named(x) => {
                    if x.shorts.is_empty() && x.longs.is_empty() {
                        return;
                    }
                    if x.is_arg() {
                        args.extend(&x.shorts);
                    } else {
                        flags.extend(&x.shorts);
                    }
                }
                Node::Cmd(c) => go(&c.level.body, flags, args),
                Node::Pos(p) => {
                    let _ = p;
                }
                other => {
                    for c in other.children() {
                        go(c, flags, args);
                    }
                }
            }
        }
        let mut f = Vec::new();
        let mut a = Vec::new();
        go(&self.body, &mut f, &mut a);
        f.extend(self.info.help_shorts());
        f.extend(self.info.version_shorts());
        (f, a)
    }
}

// ---------------------------------------------------------------------------------------------
// readable rendering of a definition (for samples and replay files)
// ---------------------------------------------------------------------------------------------

fn show_doc(d: &DocSpec) -> String {
    if d.is_plain() {
        format!("{:?}", d.0[0].1)
    } else {
        format!("{:?}", d.0)
    }
}

fn show_named(n: &NamedSpec) -> String {
    let mut s = String::new();
    for c in &n.shorts {
        s.push_str(&format!("short({:?}).", c));
    }
    for l in &n.longs {
        s.push_str(&format!("long({:?}).", l));
    }
    for e in &n.envs {
        s.push_str(&format!("env({:?}).", e));
    }
    if let Some(h) = &n.help {
        s.push_str(&format!("help({}).", show_doc(h)));
    }
    match &n.kind {
        NamedKind::Switch => s.push_str("switch()"),
        NamedKind::Flag => s.push_str("flag(true,false)"),
        NamedKind::ReqFlag => s.push_str("req_flag(())"),
        NamedKind::Arg {
            ty,
            metavar,
            adjacent,
        } => {
            s.push_str(&format!("argument::<{:?}>({:?})", ty, metavar));
            if *adjacent {
                s.push_str(".adjacent()");
            }
        }
    }
    s
}

pub fn show_node(n: &Node) -> String {
    match n {
        Node::Named(x) => show_named(x),
        Node::Pos(p) => {
            let mut s = format!("positional::<{:?}>({:?})", p.ty, p.metavar);
            if let Some(h) = &p.help {
                s.push_str(&format!(".help({})", show_doc(h)));
            }
            match p.strict {
                Strictness::Strict => s.push_str(".strict()"),
                Strictness::NonStrict => s.push_str(".non_strict()"),
                Strictness::Unrestricted => {}
            }
            s
        }
        Node::Cmd(c) => {
            let mut s = format!("{}.command({:?})", show_level(&c.level), c.name);
            for x in &c.shorts {
                s.push_str(&format!(".short({:?})", x));
            }
            for x in &c.longs {
                s.push_str(&format!(".long({:?})", x));
            }
            if let Some(h) = &c.help {
                s.push_str(&format!(".help({})", show_doc(h)));
            }
            if c.adjacent {
                s.push_str(".adjacent()");
            }
            s
        }
        Node::Pure(s) => format!("pure({:?})", s),
        Node::Any(a) => format!(
            "any({:?}, |s| starts with one of {:?}){}",
            a.metavar,
            a.prefixes,
            if a.anywhere { ".anywhere()" } else { "" }
        ),
        Node::Fail(s) => format!("fail({:?})", s),
        Node::Seq(xs) => format!(
            "construct!({})",
            xs.iter().map(show_node).collect::<Vec<_>>().join(", ")
        ),
        Node::Adjacent(xs) => format!(
            "construct!({}).adjacent()",
            xs.iter().map(show_node).collect::<Vec<_>>().join(", ")
        ),
        Node::Alt(xs) => format!(
            "construct!([{}])",
            xs.iter().map(show_node).collect::<Vec<_>>().join(", ")
        ),
        Node::Optional { n, catch } => format!(
            "{}.optional(){}",
            show_node(n),
            if *catch { ".catch()" } else { "" }
        ),
        Node::Many { n, catch } => format!(
            "{}.many(){}",
            show_node(n),
            if *catch { ".catch()" } else { "" }
        ),
        Node::Some { n, catch, msg } => format!(
            "{}.some({:?}){}",
            show_node(n),
            msg,
            if *catch { ".catch()" } else { "" }
        ),
        Node::Collect { n, catch } => format!(
            "{}.collect::<Vec<_>>(){}",
            show_node(n),
            if *catch { ".catch()" } else { "" }
        ),
        Node::Count(n) => format!("{}.count()", show_node(n)),
        Node::Last(n) => format!("{}.last()", show_node(n)),
        Node::Fallback { n, value, shown } => format!(
            "{}.fallback({:?}){}",
            show_node(n),
            value,
            if *shown { ".display_fallback()" } else { "" }
        ),
        Node::FallbackWith { n, ok, value } => format!(
            "{}.fallback_with(|| {}({:?}))",
            show_node(n),
            if *ok { "Ok" } else { "Err" },
            value
        ),
        Node::Guard { n, pred, msg } => format!("{}.guard({:?}, {:?})", show_node(n), pred, msg),
        Node::Parse { n, f } => format!("{}.parse({:?})", show_node(n), f),
        Node::Map(n) => format!("{}.map(id)", show_node(n)),
        Node::Hide(n) => format!("{}.hide()", show_node(n)),
        Node::HideUsage(n) => format!("{}.hide_usage()", show_node(n)),
        Node::CustomUsage(n, d) => format!("{}.custom_usage({})", show_node(n), show_doc(d)),
        Node::GroupHelp(n, d) => format!("{}.group_help({})", show_node(n), show_doc(d)),
        Node::WithGroupHelp(n, d) => {
            format!("{}.with_group_help(|m| {} + meta)", show_node(n), show_doc(d))
        }
        Node::Complete { n, cands, group } => format!(
            "{}.complete({:?}){}",
            show_node(n),
            cands,
            group
                .as_ref()
                .map(|g| format!(".group({:?})", g))
                .unwrap_or_default()
        ),
        Node::CompleteShell(n, s) => format!("{}.complete_shell({:?})", show_node(n), s),
        Node::Boxed(n) => format!("{}.boxed()", show_node(n)),
    }
}

pub fn show_level(l: &Level) -> String {
    let mut s = format!("{}.to_options()", show_node(&l.body));
    let i = &l.info;
    if let Some(d) = &i.descr {
        s.push_str(&format!(".descr({})", show_doc(d)));
    }
    if let Some(d) = &i.header {
        s.push_str(&format!(".header({})", show_doc(d)));
    }
    if let Some(d) = &i.footer {
        s.push_str(&format!(".footer({})", show_doc(d)));
    }
    if let Some(d) = &i.usage {
        s.push_str(&format!(".usage({})", show_doc(d)));
    }
    if let Some(v) = &i.version {
        s.push_str(&format!(".version({:?})", v));
    }
    if let Some(h) = &i.help_names {
        s.push_str(&format!(".help_parser({:?})", h));
    }
    if let Some(h) = &i.version_names {
        s.push_str(&format!(".version_parser({:?})", h));
    }
    if let Some(w) = i.max_width {
        s.push_str(&format!(".max_width({})", w));
    }
    if i.fallback_to_usage {
        s.push_str(".fallback_to_usage()");
    }
    s
}
