//! libFuzzer entry point shared by all fuzz targets: runs the property's check on the raw choice
//! bytes; an unknown violation is saved as a replay file and the process aborts (so libFuzzer
//! keeps the input as an artifact); known findings are tolerated and counted.

use std::collections::BTreeSet;
use std::sync::Once;

use crate::engine::{load_known, write_replay, Ctx, Verdict, Violation};

static INIT: Once = Once::new();

extern "C" {
    fn dup2(a: i32, b: i32) -> i32;
    fn open(path: *const u8, flags: i32) -> i32;
}

pub fn run(id: &str, data: &[u8]) {
    INIT.call_once(|| {
        // libfuzzer-sys installs an aborting panic hook: replace it so that catch_unwind works,
        // and silence bpaf's check_invariants which prints to stdout
        crate::outcome::install_panic_hook();
        unsafe {
            let fd = open(b"/dev/null\0".as_ptr(), 1);
            if fd >= 0 {
                dup2(fd, 1);
            }
        }
    });
    let prop = match crate::props::find(id) {
        Some(p) => p,
        None => return,
    };
    if data.len() > prop.max_len() * 2 {
        return;
    }
    let known: BTreeSet<String> = load_known()
        .into_iter()
        .filter(|k| k.property == id && k.status == "known")
        .map(|k| k.signature)
        .collect();
    let mut ctx = Ctx {
        known,
        ..Ctx::default()
    };
    let v = match crate::outcome::guarded(|| prop.check(data, &mut ctx)) {
        Ok(v) => v,
        Err((at, msg)) => Verdict::fail(format!("harness-or-library-panic@{}", at), msg),
    };
    if let Verdict::Fail { sig, detail } = v {
        if ctx.known.contains(&sig) || sig.starts_with("generator/") {
            return;
        }
        let case = crate::outcome::guarded(|| prop.describe(data)).unwrap_or(serde_json::json!(null));
        let path = write_replay(
            id,
            &Violation {
                sig: sig.clone(),
                detail: detail.clone(),
                bytes: data.to_vec(),
                case,
            },
            0,
            "fuzz",
        );
        eprintln!("VIOLATION property={} replay={}", id, path.display());
        eprintln!("  signature: {}", sig);
        eprintln!("  detail: {}", detail.chars().take(1200).collect::<String>());
        std::process::abort();
    }
}
