pub mod broad;
pub mod build;
pub mod c20corpus;
pub mod mk;
pub mod gen;
pub mod lexers;
pub mod model;
pub mod outcome;
pub mod spec;
pub mod un;
pub mod value;
pub mod wild;

#[cfg(feature = "engine")]
pub mod engine;
#[cfg(feature = "engine")]
pub mod props;
