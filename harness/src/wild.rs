//! The widest generator (C04, C20 and the renderers): every wrapper on every node, styled
//! multi-fragment docs, empty parsers, failing parsers, adjacent groups and commands.

use crate::broad::*;
use crate::gen::*;
use crate::spec::*;
use crate::un::Un;

pub const NASTY_TEXT: &[&str] = &[
    "plain text",
    "with\nnewline",
    "para one\n\npara two",
    "\n leading break",
    "intro\n\n    code block\n    second line\n\nafter",
    "ünï 口水鸡 жар",
    "",
    "tab\there",
    "<b>bold</b> & <i>",
    ".TH x\n.SH y",
    "'quote and \\fB escape",
    "a\n\n```\ncode\n```\n",
    "trailing space ",
    "line\n.dot at line start",
    "very-long-word-very-long-word-very-long-word-very-long-word-very-long-word-very-long-word-very-long-word-very-long-word",
    "é\nñ",
    "x",
    "two  spaces",
    "[link](target) `ticks` *stars*",
    "\n",
    "\n\n",
    "end with newline\n",
];

pub fn gen_wild_text(u: &mut Un) -> String {
    if u.chance(40) {
        // raw bytes interpreted as (lossy) text, bounded
        let b = u.bytes(12);
        String::from_utf8_lossy(&b).into_owned()
    } else {
        (*u.pick(NASTY_TEXT)).to_owned()
    }
}

pub fn gen_wild_doc(u: &mut Un) -> DocSpec {
    let n = 1 + u.weighted(&[5, 2, 1]);
    let mut v = Vec::new();
    for i in 0..n {
        let st = if n == 1 && u.chance(200) {
            StyleK::Text
        } else {
            *u.pick(&[
                StyleK::Text,
                StyleK::Literal,
                StyleK::Emphasis,
                StyleK::Invalid,
                StyleK::Metavar,
            ])
        };
        let _ = i;
        v.push((st, gen_wild_text(u)));
    }
    DocSpec(v)
}

fn maybe_doc(u: &mut Un, p: u32) -> Option<DocSpec> {
    if u.chance(p) {
        Some(gen_wild_doc(u))
    } else {
        None
    }
}

pub fn gen_shell(u: &mut Un) -> ShellSpec {
    let masks = ["*.toml", "*.(md|txt)", "toml", "*", "a b", "it's", "$(x)"];
    match u.below(6) {
        0 => ShellSpec::File(None),
        1 => ShellSpec::File(Some((*u.pick(&masks)).to_owned())),
        2 => ShellSpec::Dir(None),
        3 => ShellSpec::Dir(Some((*u.pick(&masks)).to_owned())),
        4 => ShellSpec::Raw {
            bash: "_bash_raw".into(),
            zsh: "_zsh_raw".into(),
            fish: "fish_raw".into(),
            elvish: "elvish_raw".into(),
        },
        _ => ShellSpec::Nothing,
    }
}

pub fn wild_wrap(n: Node, u: &mut Un) -> Node {
    match u.below(23) {
        // a default that is validated afterwards: the check (or conversion) then fails on a
        // value that was never on the line
        21 => Node::Guard {
            n: Node::Fallback {
                n: n.b(),
                value: "fb".into(),
                shown: u.bool(),
            }
            .b(),
            pred: u.pick(&[Pred::False, Pred::NotEq("fb".into())]).clone(),
            msg: "guard failed".into(),
        },
        22 => Node::Parse {
            n: Node::FallbackWith {
                n: n.b(),
                ok: true,
                value: "fbw".into(),
            }
            .b(),
            f: ParseFn::Never("never parses".into()),
        },
        0 => Node::Optional {
            n: n.b(),
            catch: u.bool(),
        },
        1 => Node::Many {
            n: n.b(),
            catch: u.bool(),
        },
        2 => Node::Some {
            n: n.b(),
            catch: u.bool(),
            msg: "some failed".into(),
        },
        3 => Node::Collect {
            n: n.b(),
            catch: u.bool(),
        },
        4 => Node::Count(n.b()),
        5 => Node::Last(n.b()),
        6 => Node::Fallback {
            n: n.b(),
            value: "fb".into(),
            shown: u.bool(),
        },
        7 => Node::FallbackWith {
            n: n.b(),
            ok: u.bool(),
            value: "fbw".into(),
        },
        8 => Node::Guard {
            n: n.b(),
            pred: u
                .pick(&[
                    Pred::True,
                    Pred::False,
                    Pred::NotEq("bad".into()),
                    Pred::NumBelow(1500),
                ])
                .clone(),
            msg: "guard failed".into(),
        },
        9 => Node::Parse {
            n: n.b(),
            f: u
                .pick(&[
                    ParseFn::Id,
                    ParseFn::StrToU32,
                    ParseFn::StrToI64,
                    ParseFn::Never("never parses".into()),
                ])
                .clone(),
        },
        10 => Node::Map(n.b()),
        11 => Node::Hide(n.b()),
        12 => Node::HideUsage(n.b()),
        13 => Node::CustomUsage(n.b(), gen_wild_doc(u)),
        14 => Node::GroupHelp(n.b(), gen_wild_doc(u)),
        15 => Node::WithGroupHelp(n.b(), gen_wild_doc(u)),
        16 => Node::Complete {
            n: n.b(),
            cands: vec![
                ("alpha".into(), Some("first".into())),
                ("beta".into(), None),
                ("be ta".into(), Some("with space".into())),
            ],
            group: if u.bool() { Some("grp".into()) } else { None },
        },
        17 => Node::CompleteShell(n.b(), gen_shell(u)),
        18 => Node::Boxed(n.b()),
        _ => n,
    }
}

fn wild_help(n: Node, u: &mut Un) -> Node {
    match n {
        Node::Named(mut x) => {
            x.help = maybe_doc(u, 150);
            if u.chance(50) {
                x.envs.push(format!("BPAF_VERIF_W{}", x.id));
            }
            Node::Named(x)
        }
        Node::Pos(mut p) => {
            p.help = maybe_doc(u, 150);
            Node::Pos(p)
        }
        other => other,
    }
}

fn wild_leaf(u: &mut Un, names: &mut Names) -> Node {
    match u.weighted(&[3, 2, 3, 5]) {
        0 => wild_help(Node::Named(gen_named_leaf(u, names, NamedKind::Switch)), u),
        1 => wild_help(Node::Named(gen_named_leaf(u, names, NamedKind::Flag)), u),
        2 => wild_help(Node::Named(gen_named_leaf(u, names, NamedKind::ReqFlag)), u),
        _ => {
            let ty = gen_ty(u, true);
            let metavar = match u.below(5) {
                0 => "lower case".to_owned(),
                1 => "ünï".to_owned(),
                _ => metavar_for(ty, u),
            };
            let adjacent = u.chance(30);
            wild_help(
                Node::Named(gen_named_leaf(
                    u,
                    names,
                    NamedKind::Arg {
                        ty,
                        metavar,
                        adjacent,
                    },
                )),
                u,
            )
        }
    }
}

fn wild_pos(u: &mut Un, names: &mut Names) -> Node {
    let ty = gen_ty(u, true);
    let p = Node::Pos(PosSpec {
        id: names.id(),
        metavar: metavar_for(ty, u),
        ty,
        help: maybe_doc(u, 120),
        strict: *u.pick(&[
            Strictness::Unrestricted,
            Strictness::Unrestricted,
            Strictness::Strict,
            Strictness::NonStrict,
        ]),
    });
    p
}

/// `any(..)` accepting items that start with one of a few prefixes, usually `.anywhere()`
fn wild_any(u: &mut Un) -> Node {
    let prefixes: Vec<String> = match u.below(5) {
        0 => vec!["-D".into(), "--define=".into()],
        1 => vec!["+".into()],
        2 => vec!["@".into(), "x".into()],
        3 => vec!["-".into()],
        _ => vec!["--zz".into()],
    };
    Node::Any(AnySpec {
        metavar: (*u.pick(&["ANY", "-DNAME=VAL", "<spec>"])).to_owned(),
        prefixes,
        anywhere: u.chance(190),
        help: maybe_doc(u, 100),
    })
}

fn wild_field(u: &mut Un, names: &mut Names, depth: usize) -> Node {
    let base = match u.weighted(&[8, 2, 2, 2, 1, 1, 1]) {
        6 => wild_any(u),
        0 => wild_leaf(u, names),
        1 => {
            let n = 2 + u.below(2);
            Node::Alt((0..n).map(|_| wild_field_small(u, names)).collect())
        }
        2 => {
            // adjacent group; the lead is usually a required named item, sometimes not
            let mut members = Vec::new();
            members.push(match u.weighted(&[6, 1, 1, 2]) {
                0 => wild_leaf(u, names),
                1 => Node::Pure("lead".into()),
                3 => wild_any(u),
                _ => wild_pos(u, names),
            });
            let k = 1 + u.below(2);
            for _ in 0..k {
                members.push(if u.bool() {
                    wild_pos(u, names)
                } else {
                    wild_field_small(u, names)
                });
            }
            Node::Adjacent(members)
        }
        3 => {
            let n = 1 + u.below(3);
            Node::Seq((0..n).map(|_| wild_field_small(u, names)).collect())
        }
        4 => Node::Pure("pure".into()),
        _ => Node::Fail("always fails".into()),
    };
    let k = u.weighted(&[4, 3, 2, 1]);
    let mut n = base;
    for _ in 0..k {
        n = wild_wrap(n, u);
    }
    let _ = depth;
    n
}

fn wild_field_small(u: &mut Un, names: &mut Names) -> Node {
    let mut n = wild_leaf(u, names);
    if u.chance(100) {
        n = wild_wrap(n, u);
    }
    n
}

pub fn gen_wild_info(u: &mut Un, names: &mut Names, depth: usize) -> InfoSpec {
    let mut info = InfoSpec {
        descr: maybe_doc(u, 120),
        header: maybe_doc(u, 80),
        footer: maybe_doc(u, 80),
        usage: maybe_doc(u, 30),
        ..InfoSpec::default()
    };
    if u.chance(if depth == 0 { 120 } else { 40 }) {
        info.version = Some(gen_wild_text(u));
    }
    if u.chance(40) {
        let mut shorts = Vec::new();
        if u.bool() {
            if let Some(c) = names.short(u) {
                shorts.push(c);
            }
        }
        info.help_names = Some((shorts, vec![names.long(u)]));
    }
    if u.chance(30) {
        let mut shorts = Vec::new();
        if u.bool() {
            if let Some(c) = names.short(u) {
                shorts.push(c);
            }
        }
        info.version_names = Some((shorts, vec![names.long(u)]));
    }
    if u.chance(60) {
        info.max_width = Some(match u.below(4) {
            0 => u.below(8),
            1 => 20 + u.below(40),
            2 => 100,
            _ => u.below(400),
        });
    }
    info.fallback_to_usage = u.chance(40);
    info
}

pub fn gen_wild_level(u: &mut Un, names: &mut Names, depth: usize) -> Level {
    let n_fields = u.below(6);
    let mut fields: Vec<Node> = (0..n_fields).map(|_| wild_field(u, names, depth)).collect();
    let tail = if depth < 2 {
        u.weighted(&[2, 3, 3])
    } else {
        u.weighted(&[2, 3, 0])
    };
    let mut tail_nodes = Vec::new();
    match tail {
        1 => {
            let k = 1 + u.below(3);
            for _ in 0..k {
                let mut p = wild_pos(u, names);
                if u.chance(150) {
                    p = wild_wrap(p, u);
                }
                tail_nodes.push(p);
            }
        }
        2 => {
            let k = 1 + u.below(3);
            let mut cmds = Vec::new();
            for _ in 0..k {
                let name = names.cmd(u);
                let mut shorts = Vec::new();
                let mut longs = Vec::new();
                if u.chance(90) {
                    if let Some(c) = names.cmd_short(u) {
                        shorts.push(c);
                    }
                }
                if u.chance(60) {
                    longs.push(names.cmd(u));
                }
                let level = gen_wild_level(u, names, depth + 1);
                let mut c = Node::Cmd(Box::new(CmdSpec {
                    name,
                    shorts,
                    longs,
                    help: maybe_doc(u, 100),
                    adjacent: u.chance(50),
                    level,
                }));
                if u.chance(60) {
                    c = wild_wrap(c, u);
                }
                cmds.push(c);
            }
            // the same command offered twice (same name and help, another body): listed once
            if u.chance(25) {
                if let Some(Node::Cmd(first)) = cmds.iter().find(|c| matches!(c, Node::Cmd(_))).cloned() {
                    let mut twin = (*first).clone();
                    twin.level = gen_wild_level(u, names, depth + 1);
                    twin.level.info = first.level.info.clone();
                    cmds.push(Node::Cmd(Box::new(twin)));
                }
            }
            let alt = if cmds.len() == 1 && u.bool() {
                cmds.pop().unwrap()
            } else {
                Node::Alt(cmds)
            };
            tail_nodes.push(if u.chance(128) { wild_wrap(alt, u) } else { alt });
        }
        _ => {}
    }
    fields.truncate(crate::build::MAX_SEQ - tail_nodes.len());
    fields.extend(tail_nodes);
    let body = if fields.is_empty() {
        Node::Pure("nothing".into())
    } else if fields.len() == 1 && u.bool() {
        fields.pop().unwrap()
    } else {
        Node::Seq(fields)
    };
    let mut level = Level {
        body,
        info: gen_wild_info(u, names, depth),
    };
    if depth == 0 && u.chance(45) {
        make_ambiguous(&mut level, u);
    }
    level
}

/// give an argument the short name of a flag (or the other way round): clusters that contain the
/// letter are then ambiguous, which must be reported as an error
pub fn make_ambiguous(level: &mut Level, u: &mut Un) {
    let (flag_short, arg_id) = {
        let leaves = level.body.named_leaves(true);
        let flags: Vec<char> = leaves
            .iter()
            .filter(|l| !l.is_arg())
            .filter_map(|l| l.shorts.first().copied())
            .collect();
        let args: Vec<usize> = leaves.iter().filter(|l| l.is_arg()).map(|l| l.id).collect();
        if flags.is_empty() || args.is_empty() {
            return;
        }
        (*u.pick(&flags), *u.pick(&args))
    };
    fn go(n: &mut Node, id: usize, c: char) {
        match n {
            Node::Named(x) => {
                if x.id == id && !x.shorts.contains(&c) {
                    x.shorts.push(c);
                }
            }
            Node::Cmd(cmd) => go(&mut cmd.level.body, id, c),
            Node::Pos(_) | Node::Pure(_) | Node::Fail(_) | Node::Any(_) => {}
            Node::Seq(xs) | Node::Alt(xs) | Node::Adjacent(xs) => {
                for x in xs {
                    go(x, id, c);
                }
            }
            Node::Optional { n, .. }
            | Node::Many { n, .. }
            | Node::Some { n, .. }
            | Node::Collect { n, .. }
            | Node::Count(n)
            | Node::Last(n)
            | Node::Fallback { n, .. }
            | Node::FallbackWith { n, .. }
            | Node::Guard { n, .. }
            | Node::Parse { n, .. }
            | Node::Map(n)
            | Node::Hide(n)
            | Node::HideUsage(n)
            | Node::CustomUsage(n, _)
            | Node::GroupHelp(n, _)
            | Node::WithGroupHelp(n, _)
            | Node::Complete { n, .. }
            | Node::CompleteShell(n, _)
            | Node::Boxed(n) => go(n, id, c),
        }
    }
    go(&mut level.body, arg_id, flag_short);
}

/// declared environment variables of a definition
pub fn declared_envs(level: &Level) -> Vec<String> {
    level
        .body
        .named_leaves(true)
        .iter()
        .flat_map(|l| l.envs.clone())
        .collect()
}

/// an environment for one step: some of the declared variables set
pub fn gen_env(u: &mut Un, declared: &[String]) -> Vec<(String, Vec<u8>)> {
    let mut out = Vec::new();
    for d in declared {
        if u.chance(110) {
            let v: &[u8] = *u.pick(&[&b"1"[..], &b""[..], &b"x y"[..], &b"1001"[..], &b"n\xff"[..], &b"bad"[..]]);
            out.push((d.clone(), v.to_vec()));
        }
    }
    out
}

/// argument vectors of arbitrary byte strings, biased towards the definition's own names
pub fn gen_wild_argv(u: &mut Un, level: &Level) -> Vec<Vec<u8>> {
    let mut pool: Vec<Vec<u8>> = Vec::new();
    let mut letters = String::new();
    for l in level.body.named_leaves(true) {
        for s in &l.shorts {
            pool.push(format!("-{}", s).into_bytes());
            letters.push(*s);
            if l.is_arg() {
                pool.push(format!("-{}=v", s).into_bytes());
                pool.push(format!("-{}1001", s).into_bytes());
            }
        }
        for lg in &l.longs {
            pool.push(format!("--{}", lg).into_bytes());
            if l.is_arg() {
                pool.push(format!("--{}=7", lg).into_bytes());
            }
        }
    }
    for c in level.body.commands(true) {
        for n in c.all_names() {
            pool.push(n.into_bytes());
        }
    }
    level.body.walk(true, &mut |n| {
        if let Node::Any(a) = n {
            for p in &a.prefixes {
                pool.push(format!("{}foo=bar", p).into_bytes());
                pool.push(format!("{}x", p).into_bytes());
                pool.push(p.clone().into_bytes());
            }
        }
    });
    for l in level.info.help_longs() {
        pool.push(format!("--{}", l).into_bytes());
    }
    for l in level.info.version_longs() {
        pool.push(format!("--{}", l).into_bytes());
    }
    let fixed: &[&[u8]] = &[
        b"--", b"-", b"", b"-h", b"--help", b"-V", b"--version", b"word", b"1001", b"-5", b"-=",
        b"--=", b"--=x", b"-x=", b"=", b"a=b", b"\xff", b"-\xff", b"--\xff=1", b"-a\xff", b"--x\xffy",
        b"bad", b"x1", b" ", b"-hh", b"-hV",
        // a single dash, the beginning of a multi-byte character cut short, `=`
        b"-\xc3=x", b"-\xe2\x82=1", b"-\xe9=x", b"-\xff=", b"-\xf0\x9f=1", b"-\xc3", b"-\xe2\x82",
    ];
    let n = u.below(9);
    let mut out = Vec::new();
    let mut long_used = false;
    for _ in 0..n {
        let item: Vec<u8> = match u.weighted(&[6, 4, 2, 1, 1]) {
            0 if !pool.is_empty() => u.pick(&pool).clone(),
            0 | 1 => (*u.pick(fixed)).to_vec(),
            2 => u.bytes(8),
            3 => {
                // long cluster of declared letters
                let k = 1 + u.below(6);
                let mut s = String::from("-");
                let ls: Vec<char> = letters.chars().collect();
                if ls.is_empty() {
                    s.push('h');
                } else {
                    for _ in 0..k {
                        s.push(*u.pick(&ls));
                    }
                }
                // a very long cluster, once per line and of a few hundred letters: bpaf's
                // repetition wrappers inside an adjacent group are cubic in the number of items
                // (every start position x every repetition x a scan), so several clusters of
                // 1500 letters (the first design) take many minutes without being a loop - a
                // libFuzzer run found such a line, which the 60 s rule of C04 then (wrongly)
                // called non-terminating
                if !long_used && u.chance(30) {
                    long_used = true;
                    let c = s.chars().last().unwrap();
                    for _ in 0..300 {
                        s.push(c);
                    }
                }
                s.into_bytes()
            }
            _ => {
                let mut b = u.pick(&[&b"--"[..], &b"-"[..]]).to_vec();
                b.extend(u.bytes(6));
                b
            }
        };
        out.push(item);
    }
    out
}

/// items that would make the library leave the process (documented protocol, outside every
/// quantifier): completion-style requests and completion revisions bpaf does not know
pub fn sanitize_argv(argv: &mut Vec<Vec<u8>>) -> usize {
    let before = argv.len();
    argv.retain(|a| !a.starts_with(b"--bpaf-complete-"));
    before - argv.len()
}

pub fn has_node(level: &Level, pred: &dyn Fn(&Node) -> bool) -> bool {
    level.body.count_kind(true, pred) > 0
}

pub fn uses_broad(_c: &BroadCfg) {}
