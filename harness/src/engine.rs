//! Driver shared by every property: proptest over choice sequences, sharding into worker
//! processes, evidence, replay files, known findings.

use std::cell::RefCell;
use std::collections::{BTreeMap, BTreeSet, HashSet};
use std::fs;
use std::io::Write;
use std::os::unix::fs::FileExt;
use std::os::unix::process::ExitStatusExt;
use std::path::{Path, PathBuf};
use std::process::{Command, Stdio};
use std::time::{Duration, Instant, SystemTime};

use proptest::collection::vec;
use proptest::prelude::any;
use proptest::test_runner::{Config, RngSeed, TestCaseError, TestError, TestRunner};
use serde_json::{json, Value};

use crate::un::fnv;

/// Root of the verification tree. `/verif` unless VERIF_ROOT is set (used for background runs from a
/// snapshot worktree so that they do not share build output or evidence with the live tree).
/// Where bpaf's source lives: `/repo`, or BPAF_REPO for isolated runs against a scratch copy
/// (tools/try_mutant_iso.sh); must agree with the path dependency in harness/Cargo.toml.
pub fn bpaf_repo() -> String {
    std::env::var("BPAF_REPO").unwrap_or_else(|_| "/repo".to_string())
}

pub fn verif_root() -> String {
    std::env::var("VERIF_ROOT").unwrap_or_else(|_| "/verif".to_string())
}

#[derive(Clone, Debug)]
pub enum Verdict {
    Pass,
    /// case could not be used (generator precondition); counted, never a failure
    Skip(&'static str),
    Fail { sig: String, detail: String },
}

impl Verdict {
    pub fn fail(sig: impl Into<String>, detail: impl Into<String>) -> Verdict {
        Verdict::Fail {
            sig: sig.into(),
            detail: detail.into(),
        }
    }
}

/// Per worker statistics
#[derive(Default)]
pub struct Ctx {
    pub frozen: bool,
    pub cases: u64,
    /// oracle evaluations (a case may run the parser many times)
    pub evaluations: u64,
    pub nontrivial: HashSet<u64>,
    pub classes: BTreeMap<String, u64>,
    pub skipped: BTreeMap<String, u64>,
    pub excluded: BTreeMap<String, u64>,
    pub known_hits: BTreeMap<String, u64>,
    pub tier_thorough: bool,
    pub known: BTreeSet<String>,
    pub scale: f64,
}

impl Ctx {
    pub fn eval(&mut self, n: u64) {
        if !self.frozen {
            self.evaluations += n;
        }
    }
    pub fn class(&mut self, c: &str) {
        if !self.frozen {
            *self.classes.entry(c.to_owned()).or_default() += 1;
        }
    }
    pub fn nontrivial(&mut self, h: u64) {
        if !self.frozen {
            self.nontrivial.insert(h);
        }
    }
    pub fn excluded(&mut self, c: &str) {
        if !self.frozen {
            *self.excluded.entry(c.to_owned()).or_default() += 1;
        }
    }
    pub fn is_known(&self, sig: &str) -> bool {
        self.known.contains(sig)
    }
}

pub trait Prop: Sync {
    fn id(&self) -> &'static str;
    /// maximum length of the choice sequence
    fn max_len(&self) -> usize {
        384
    }
    /// number of proptest cases (before scaling) for (quick, thorough)
    fn cases(&self) -> (u64, u64);
    fn rule(&self) -> &'static str;
    fn assumptions(&self) -> Vec<&'static str> {
        Vec::new()
    }
    fn check(&self, bytes: &[u8], ctx: &mut Ctx) -> Verdict;
    /// readable form of a case (for samples and replay files)
    fn describe(&self, bytes: &[u8]) -> Value;
    /// extra work run once per check in the parent (subprocess drivers); returns violations
    fn parent_phase(&self, _env: &RunEnv, _ev: &mut Value) -> Vec<Violation> {
        Vec::new()
    }
    /// explicit regression cases (witnesses of known and fixed findings); each returns its
    /// verdict; run on every check
    fn regressions(&self) -> Vec<Regression> {
        Vec::new()
    }
    /// Some(n): termination is part of the property - a single case that runs longer than n
    /// seconds (cases take micro- to milliseconds) is a violation, not an infrastructure stall
    fn hang_limit_s(&self) -> Option<u64> {
        None
    }
    /// workers are used at all
    fn uses_workers(&self) -> bool {
        true
    }
    /// an exhaustive enumeration run by shard 0 in the thorough tier (and a smaller one in quick)
    fn enumerate(&self, _ctx: &mut Ctx, _thorough: bool, _shard: usize, _nshards: usize) -> Vec<Violation> {
        Vec::new()
    }
}

pub struct Regression {
    pub name: &'static str,
    pub run: fn(&mut Ctx) -> Verdict,
}

#[derive(Clone, Debug)]
pub struct Violation {
    pub sig: String,
    pub detail: String,
    pub bytes: Vec<u8>,
    pub case: Value,
}

#[derive(Clone, Debug)]
pub struct RunEnv {
    pub tier: String,
    pub seed: u64,
    pub scale: f64,
    pub work: PathBuf,
}

#[derive(Clone, Debug)]
pub struct KnownFinding {
    pub property: String,
    pub signature: String,
    pub status: String,
    pub what_fails: String,
    pub witness_hex: Option<String>,
}

pub fn load_known() -> Vec<KnownFinding> {
    let p = Path::new(&verif_root()).join("known_findings.json");
    let txt = match fs::read_to_string(&p) {
        Ok(t) => t,
        Err(_) => return Vec::new(),
    };
    let v: Value = serde_json::from_str(&txt).expect("known_findings.json parses");
    let mut out = Vec::new();
    for e in v["findings"].as_array().cloned().unwrap_or_default() {
        out.push(KnownFinding {
            property: e["property"].as_str().unwrap_or("").to_owned(),
            signature: e["signature"].as_str().unwrap_or("").to_owned(),
            status: e["status"].as_str().unwrap_or("known").to_owned(),
            what_fails: e["what_fails"].as_str().unwrap_or("").to_owned(),
            witness_hex: e["witness_hex"].as_str().map(str::to_owned),
        });
    }
    out
}

pub fn hex(b: &[u8]) -> String {
    b.iter().map(|x| format!("{:02x}", x)).collect()
}

pub fn unhex(s: &str) -> Vec<u8> {
    let s: Vec<u8> = s.bytes().filter(|b| b.is_ascii_hexdigit()).collect();
    s.chunks(2)
        .filter(|c| c.len() == 2)
        .map(|c| u8::from_str_radix(std::str::from_utf8(c).unwrap(), 16).unwrap())
        .collect()
}

fn mix(seed: u64, prop: &str, shard: u64) -> u64 {
    let mut d = Vec::new();
    d.extend_from_slice(&seed.to_le_bytes());
    d.extend_from_slice(prop.as_bytes());
    d.extend_from_slice(&shard.to_le_bytes());
    fnv(&d)
}

pub fn scale_from_env() -> f64 {
    std::env::var("VERIF_SCALE")
        .ok()
        .and_then(|s| s.parse::<f64>().ok())
        .filter(|x| *x > 0.0)
        .unwrap_or(1.0)
}

// ---------------------------------------------------------------------------------------------
// worker
// ---------------------------------------------------------------------------------------------

struct Slot {
    f: fs::File,
}

impl Slot {
    fn store(&self, bytes: &[u8]) {
        let mut buf = Vec::with_capacity(bytes.len() + 4);
        buf.extend_from_slice(&(bytes.len() as u32).to_le_bytes());
        buf.extend_from_slice(bytes);
        let _ = self.f.write_at(&buf, 0);
    }
}

pub fn read_slot(p: &Path) -> Option<Vec<u8>> {
    let d = fs::read(p).ok()?;
    if d.len() < 4 {
        return None;
    }
    let n = u32::from_le_bytes([d[0], d[1], d[2], d[3]]) as usize;
    d.get(4..4 + n).map(<[u8]>::to_vec)
}

/// Run the proptest driver for one shard and write the result file
pub fn worker(
    prop: &dyn Prop,
    tier: &str,
    seed: u64,
    shard: usize,
    nshards: usize,
    out: &Path,
) {
    crate::outcome::install_panic_hook();
    let start = Instant::now();
    let thorough = tier == "thorough";
    let scale = scale_from_env();
    let known: BTreeSet<String> = load_known()
        .into_iter()
        .filter(|k| k.property == prop.id() && k.status == "known")
        .map(|k| k.signature)
        .collect();
    let ctx = RefCell::new(Ctx {
        tier_thorough: thorough,
        known,
        scale,
        ..Ctx::default()
    });
    let slot = Slot {
        f: fs::OpenOptions::new()
            .create(true)
            .write(true)
            .truncate(true)
            .open(out.with_extension("slot"))
            .expect("slot file"),
    };

    let (q, t) = prop.cases();
    let total = ((if thorough { t } else { q }) as f64 * scale).ceil() as u64;
    let mut remaining = (total / nshards as u64).max(1);
    let tolerated: RefCell<BTreeSet<String>> = RefCell::new(BTreeSet::new());
    let mut violations: Vec<Violation> = Vec::new();
    let mut samples: Vec<Value> = Vec::new();
    let sample_keys: RefCell<Vec<(u64, Vec<u8>)>> = RefCell::new(Vec::new());
    let mut round = 0u64;

    // enumeration part
    {
        let mut c = ctx.borrow_mut();
        let vs = prop.enumerate(&mut c, thorough, shard, nshards);
        violations.extend(vs);
    }

    while remaining > 0 && violations.len() < 6 {
        round += 1;
        ctx.borrow_mut().frozen = false;
        let before = ctx.borrow().cases;
        let cfg = Config {
            cases: remaining.min(u32::MAX as u64) as u32,
            rng_seed: RngSeed::Fixed(mix(seed, prop.id(), (shard as u64) << 8 | round)),
            failure_persistence: None,
            max_shrink_iters: 20_000,
            ..Config::default()
        };
        let mut runner = TestRunner::new(cfg);
        let strat = vec(any::<u8>(), 0..prop.max_len());
        let res = runner.run(&strat, |bytes| {
            slot.store(&bytes);
            let mut c = ctx.borrow_mut();
            if !c.frozen {
                c.cases += 1;
            }
            let nt_before = c.nontrivial.len();
            let verdict = match crate::outcome::guarded(|| prop.check(&bytes, &mut c)) {
                Ok(v) => v,
                Err((at, msg)) => Verdict::fail(
                    format!("harness-or-library-panic@{}", at),
                    format!("panic outside a guarded call: {} at {}", msg, at),
                ),
            };
            // keep a few non trivial samples, chosen by hash so the choice is deterministic
            if !c.frozen && c.nontrivial.len() > nt_before {
                let h = fnv(&bytes);
                let mut sk = sample_keys.borrow_mut();
                if sk.len() < 6 {
                    sk.push((h, bytes.clone()));
                } else if let Some(m) = sk.iter_mut().max_by_key(|x| x.0) {
                    if h < m.0 {
                        *m = (h, bytes.clone());
                    }
                }
            }
            match verdict {
                Verdict::Pass => Ok(()),
                Verdict::Skip(why) => {
                    if !c.frozen {
                        *c.skipped.entry(why.to_owned()).or_default() += 1;
                    }
                    Ok(())
                }
                Verdict::Fail { sig, .. } => {
                    if c.known.contains(&sig) {
                        if !c.frozen {
                            *c.known_hits.entry(sig).or_default() += 1;
                        }
                        Ok(())
                    } else if tolerated.borrow().contains(&sig) {
                        Ok(())
                    } else {
                        c.frozen = true;
                        Err(TestCaseError::fail(sig))
                    }
                }
            }
        });
        let done = ctx.borrow().cases - before;
        remaining = remaining.saturating_sub(done.max(1));
        match res {
            Ok(()) => break,
            Err(TestError::Fail(_, bytes)) => {
                // own minimisation pass on top of proptest's result
                let bytes = minimise(prop, &bytes, &ctx, &tolerated);
                let mut c = ctx.borrow_mut();
                c.frozen = true;
                let v = match crate::outcome::guarded(|| prop.check(&bytes, &mut c)) {
                    Ok(v) => v,
                    Err((at, msg)) => Verdict::fail(
                        format!("harness-or-library-panic@{}", at),
                        format!("{} at {}", msg, at),
                    ),
                };
                if let Verdict::Fail { sig, detail } = v {
                    tolerated.borrow_mut().insert(sig.clone());
                    let case = crate::outcome::guarded(|| prop.describe(&bytes))
                        .unwrap_or_else(|e| json!({"describe_panicked": e.1}));
                    violations.push(Violation {
                        sig,
                        detail,
                        bytes,
                        case,
                    });
                } else {
                    // flaky: report it, this must never happen
                    violations.push(Violation {
                        sig: "flaky-oracle".into(),
                        detail: "failure did not reproduce on the minimised input".into(),
                        bytes: bytes.clone(),
                        case: json!(null),
                    });
                    break;
                }
            }
            Err(TestError::Abort(r)) => {
                eprintln!("proptest aborted: {}", r);
                break;
            }
        }
    }

    for (_, b) in sample_keys.borrow().iter() {
        if let Ok(v) = crate::outcome::guarded(|| prop.describe(b)) {
            samples.push(v);
        }
    }
    let c = ctx.borrow();
    let res = json!({
        "shard": shard,
        "cases": c.cases,
        "evaluations": c.evaluations,
        "nontrivial": c.nontrivial.iter().collect::<Vec<_>>(),
        "classes": c.classes,
        "skipped": c.skipped,
        "excluded": c.excluded,
        "known_hits": c.known_hits,
        "samples": samples,
        "violations": violations.iter().map(|v| json!({
            "sig": v.sig, "detail": v.detail, "bytes": hex(&v.bytes), "case": v.case,
        })).collect::<Vec<_>>(),
        "wall_s": start.elapsed().as_secs_f64(),
        "done": true,
    });
    let tmp = out.with_extension("tmp");
    fs::write(&tmp, serde_json::to_vec(&res).unwrap()).expect("write result");
    fs::rename(&tmp, out).expect("rename result");
}

/// Deterministic delta-debugging pass on the choice bytes: delete ranges, zero bytes, halve.
fn minimise(
    prop: &dyn Prop,
    bytes: &[u8],
    ctx: &RefCell<Ctx>,
    tolerated: &RefCell<BTreeSet<String>>,
) -> Vec<u8> {
    let fails = |b: &[u8]| -> bool {
        let mut c = ctx.borrow_mut();
        c.frozen = true;
        match crate::outcome::guarded(|| prop.check(b, &mut c)) {
            Ok(Verdict::Fail { sig, .. }) => {
                !c.known.contains(&sig) && !tolerated.borrow().contains(&sig)
            }
            Ok(_) => false,
            Err(_) => true,
        }
    };
    let mut cur = bytes.to_vec();
    if !fails(&cur) {
        return cur;
    }
    let mut budget = 3000;
    let mut changed = true;
    while changed && budget > 0 {
        changed = false;
        // truncate
        while !cur.is_empty() && budget > 0 {
            budget -= 1;
            let t = cur[..cur.len() - 1].to_vec();
            if fails(&t) {
                cur = t;
                changed = true;
            } else {
                break;
            }
        }
        // delete single bytes / pairs
        for width in [4usize, 2, 1] {
            let mut i = 0;
            while i + width <= cur.len() && budget > 0 {
                budget -= 1;
                let mut t = cur.clone();
                t.drain(i..i + width);
                if fails(&t) {
                    cur = t;
                    changed = true;
                } else {
                    i += 1;
                }
            }
        }
        // zero / halve
        for i in 0..cur.len() {
            if budget == 0 {
                break;
            }
            if cur[i] == 0 {
                continue;
            }
            for cand in [0u8, cur[i] / 2, cur[i] - 1] {
                if cand >= cur[i] {
                    continue;
                }
                budget -= 1;
                let mut t = cur.clone();
                t[i] = cand;
                if fails(&t) {
                    cur = t;
                    changed = true;
                    break;
                }
            }
        }
    }
    cur
}

// ---------------------------------------------------------------------------------------------
// parent
// ---------------------------------------------------------------------------------------------

pub struct Printer {
    pub out: fs::File,
}

impl Printer {
    pub fn line(&mut self, s: &str) {
        let _ = writeln!(self.out, "{}", s);
    }
}

fn mtime_age(p: &Path) -> Option<Duration> {
    let m = fs::metadata(p).ok()?.modified().ok()?;
    SystemTime::now().duration_since(m).ok()
}

pub fn write_replay(prop: &str, v: &Violation, seed: u64, tier: &str) -> PathBuf {
    let dir = Path::new(&verif_root()).join("replays");
    let _ = fs::create_dir_all(&dir);
    let h = fnv(&[v.sig.as_bytes(), &v.bytes[..]].concat());
    let base = dir.join(format!("{}-{:016x}", prop, h));
    let bin = base.with_extension("bin");
    let _ = fs::write(&bin, &v.bytes);
    let js = json!({
        "property": prop,
        "signature": v.sig,
        "detail": v.detail,
        "choice_bytes_hex": hex(&v.bytes),
        "case": v.case,
        "regression": v.case.get("regression").cloned().unwrap_or(Value::Null),
        "seed": seed,
        "tier": tier,
        "replay": format!("./check {} --replay {}", prop, bin.display()),
    });
    let _ = fs::write(
        base.with_extension("json"),
        serde_json::to_vec_pretty(&js).unwrap(),
    );
    bin
}

/// Run one property check: returns the process exit code
pub fn run_check(prop: &dyn Prop, tier: &str, seed: u64, pr: &mut Printer) -> i32 {
    let start = Instant::now();
    let scale = scale_from_env();
    let work = Path::new(&verif_root())
        .join("work")
        .join(format!("run-{}-{}", prop.id(), std::process::id()));
    let _ = fs::remove_dir_all(&work);
    fs::create_dir_all(&work).expect("work dir");
    std::env::set_var("BPAF_VERIF_RUNDIR", &work);
    let env = RunEnv {
        tier: tier.to_owned(),
        seed,
        scale,
        work: work.clone(),
    };
    let nshards: usize = std::env::var("VERIF_JOBS")
        .ok()
        .and_then(|s| s.parse().ok())
        .unwrap_or(16);
    let exe = std::env::current_exe().expect("current exe");

    let known_all = load_known();
    let known: Vec<&KnownFinding> = known_all
        .iter()
        .filter(|k| k.property == prop.id())
        .collect();

    let mut violations: Vec<Violation> = Vec::new();
    let mut inconclusive: Vec<String> = Vec::new();
    let mut merged_eval = 0u64;
    let mut merged_cases = 0u64;
    let mut nontrivial: HashSet<u64> = HashSet::new();
    let mut classes: BTreeMap<String, u64> = BTreeMap::new();
    let mut skipped: BTreeMap<String, u64> = BTreeMap::new();
    let mut excluded: BTreeMap<String, u64> = BTreeMap::new();
    let mut known_hits: BTreeMap<String, u64> = BTreeMap::new();
    let mut samples: Vec<Value> = Vec::new();

    if prop.uses_workers() {
        let mut children = Vec::new();
        for shard in 0..nshards {
            let out = work.join(format!("w{}.json", shard));
            let child = Command::new(&exe)
                .arg("worker")
                .arg(prop.id())
                .arg(tier)
                .arg(seed.to_string())
                .arg(shard.to_string())
                .arg(nshards.to_string())
                .arg(&out)
                .env("BPAF_VERIF_RUNDIR", &work)
                .stdin(Stdio::null())
                .stdout(Stdio::null())
                .stderr(Stdio::inherit())
                .spawn()
                .expect("spawn worker");
            children.push((shard, out, child, false));
        }
        let stall = Duration::from_secs(
            std::env::var("VERIF_STALL_S")
                .ok()
                .and_then(|s| s.parse().ok())
                .unwrap_or(180),
        );
        loop {
            let mut running = 0;
            for (shard, out, child, finished) in children.iter_mut() {
                if *finished {
                    continue;
                }
                match child.try_wait() {
                    Ok(Some(status)) => {
                        *finished = true;
                        if !out.exists() {
                            let slot = read_slot(&out.with_extension("slot"));
                            let sig = status.signal();
                            match (sig, slot) {
                                (Some(9), _) => inconclusive
                                    .push(format!("worker {} was killed (SIGKILL)", shard)),
                                (Some(s), Some(bytes)) => {
                                    let case = crate::outcome::guarded(|| prop.describe(&bytes))
                                        .unwrap_or(json!(null));
                                    violations.push(Violation {
                                        sig: format!("crash/signal-{}", s),
                                        detail: format!(
                                            "worker died on signal {} while running this case",
                                            s
                                        ),
                                        bytes,
                                        case,
                                    });
                                }
                                (None, Some(bytes)) if status.code() != Some(0) => {
                                    let case = crate::outcome::guarded(|| prop.describe(&bytes))
                                        .unwrap_or(json!(null));
                                    violations.push(Violation {
                                        sig: format!("process-exit/{:?}", status.code()),
                                        detail: format!(
                                            "worker process exited with {:?} while running this case (process exit inside the library?)",
                                            status.code()
                                        ),
                                        bytes,
                                        case,
                                    });
                                }
                                _ => inconclusive.push(format!(
                                    "worker {} ended without a result ({:?})",
                                    shard, status
                                )),
                            }
                        }
                    }
                    Ok(None) => {
                        running += 1;
                        if let Some(age) = mtime_age(&out.with_extension("slot")) {
                            let limit = prop.hang_limit_s().map(Duration::from_secs);
                            if limit.map_or(false, |l| age > l) {
                                let _ = child.kill();
                                let _ = child.wait();
                                *finished = true;
                                match read_slot(&out.with_extension("slot")) {
                                    Some(bytes) => {
                                        let case = crate::outcome::guarded(|| prop.describe(&bytes))
                                            .unwrap_or(json!(null));
                                        violations.push(Violation {
                                            sig: "no-termination".into(),
                                            detail: format!(
                                                "the case did not finish within {:?} (other cases take milliseconds): unbounded loop or recursion",
                                                limit.unwrap()
                                            ),
                                            bytes,
                                            case,
                                        });
                                    }
                                    None => inconclusive.push(format!(
                                        "worker {} made no progress for {:?} and left no case",
                                        shard,
                                        limit.unwrap()
                                    )),
                                }
                            } else if age > stall {
                                let _ = child.kill();
                                let _ = child.wait();
                                *finished = true;
                                let slot = read_slot(&out.with_extension("slot"));
                                inconclusive.push(format!(
                                    "worker {} made no progress for {:?}; last case {}",
                                    shard,
                                    stall,
                                    slot.map(|b| hex(&b)).unwrap_or_default()
                                ));
                            }
                        }
                    }
                    Err(e) => {
                        *finished = true;
                        inconclusive.push(format!("wait failed: {}", e));
                    }
                }
            }
            if running == 0 {
                break;
            }
            std::thread::sleep(Duration::from_millis(50));
        }
        for (_, out, _, _) in &children {
            let txt = match fs::read(out) {
                Ok(t) => t,
                Err(_) => continue,
            };
            let v: Value = match serde_json::from_slice(&txt) {
                Ok(v) => v,
                Err(_) => continue,
            };
            merged_eval += v["evaluations"].as_u64().unwrap_or(0);
            merged_cases += v["cases"].as_u64().unwrap_or(0);
            for h in v["nontrivial"].as_array().cloned().unwrap_or_default() {
                if let Some(h) = h.as_u64() {
                    nontrivial.insert(h);
                }
            }
            for (name, map) in [
                ("classes", &mut classes),
                ("skipped", &mut skipped),
                ("excluded", &mut excluded),
                ("known_hits", &mut known_hits),
            ] {
                if let Some(o) = v[name].as_object() {
                    for (k, n) in o {
                        *map.entry(k.clone()).or_default() += n.as_u64().unwrap_or(0);
                    }
                }
            }
            for s in v["samples"].as_array().cloned().unwrap_or_default() {
                if samples.len() < 8 {
                    samples.push(s);
                }
            }
            for x in v["violations"].as_array().cloned().unwrap_or_default() {
                violations.push(Violation {
                    sig: x["sig"].as_str().unwrap_or("").to_owned(),
                    detail: x["detail"].as_str().unwrap_or("").to_owned(),
                    bytes: unhex(x["bytes"].as_str().unwrap_or("")),
                    case: x["case"].clone(),
                });
            }
        }
    }

    // replay tier: witnesses of known and fixed findings, and seeds
    let mut known_lines: Vec<String> = Vec::new();
    {
        crate::outcome::install_panic_hook();
        let mut c = Ctx {
            tier_thorough: tier == "thorough",
            scale,
            ..Ctx::default()
        };
        for k in &known {
            let bytes = match &k.witness_hex {
                Some(h) => unhex(h),
                None => continue,
            };
            c.frozen = false;
            let v = crate::outcome::guarded(|| prop.check(&bytes, &mut c));
            match (k.status.as_str(), v) {
                ("known", Ok(Verdict::Fail { sig, .. })) if sig == k.signature => {
                    known_lines.push(format!(
                        "KNOWN-FINDING: property={} {} [{}]",
                        prop.id(),
                        k.what_fails,
                        k.signature
                    ));
                }
                ("known", Ok(Verdict::Fail { sig, detail })) => {
                    // a different failure on the witness of a known finding
                    if !known.iter().any(|o| o.status == "known" && o.signature == sig) {
                        violations.push(Violation {
                            sig,
                            detail,
                            case: crate::outcome::guarded(|| prop.describe(&bytes))
                                .unwrap_or(json!(null)),
                            bytes,
                        });
                    }
                }
                ("fixed", Ok(Verdict::Fail { sig, detail })) => {
                    violations.push(Violation {
                        sig,
                        detail: format!("fixed finding is back: {}", detail),
                        case: crate::outcome::guarded(|| prop.describe(&bytes))
                            .unwrap_or(json!(null)),
                        bytes,
                    });
                }
                (_, Err((at, msg))) => violations.push(Violation {
                    sig: format!("panic@{}", at),
                    detail: msg,
                    case: json!(null),
                    bytes,
                }),
                _ => {}
            }
        }
        for r in prop.regressions() {
            c.frozen = false;
            let v = crate::outcome::guarded(|| (r.run)(&mut c));
            let (sig, detail) = match v {
                Ok(Verdict::Fail { sig, detail }) => (sig, detail),
                Ok(_) => continue,
                Err((at, msg)) => (format!("panic@{}", at), msg),
            };
            if let Some(k) = known
                .iter()
                .find(|k| k.status == "known" && k.signature == sig)
            {
                let line = format!(
                    "KNOWN-FINDING: property={} {} [{}]",
                    prop.id(),
                    k.what_fails,
                    k.signature
                );
                if !known_lines.contains(&line) {
                    known_lines.push(line);
                }
            } else {
                violations.push(Violation {
                    sig,
                    detail: format!("regression case {}: {}", r.name, detail),
                    bytes: Vec::new(),
                    case: json!({"regression": r.name}),
                });
            }
        }
        merged_eval += c.evaluations;
    }
    // known findings hit during the search but without (or in addition to) a witness
    for (sig, n) in &known_hits {
        if let Some(k) = known.iter().find(|k| &k.signature == sig) {
            let line = format!(
                "KNOWN-FINDING: property={} {} [{}]",
                prop.id(),
                k.what_fails,
                k.signature
            );
            if !known_lines.contains(&line) {
                known_lines.push(line);
            }
        }
        let _ = n;
    }

    let mut evidence = json!({});
    let parent_v = prop.parent_phase(&env, &mut evidence);
    for v in parent_v {
        // build / tool failures are not verdicts about the property
        if v.sig.starts_with("infrastructure/") {
            inconclusive.push(format!("{}: {}", v.sig, v.detail.chars().take(600).collect::<String>()));
        } else {
            violations.push(v);
        }
    }

    // de-duplicate by signature, keep the smallest witness
    let mut by_sig: BTreeMap<String, Violation> = BTreeMap::new();
    for v in violations {
        match by_sig.get(&v.sig) {
            Some(o) if o.bytes.len() <= v.bytes.len() => {}
            _ => {
                by_sig.insert(v.sig.clone(), v);
            }
        }
    }
    // a parent-phase violation may carry a known signature
    let mut final_v: Vec<Violation> = Vec::new();
    for (sig, v) in by_sig {
        if let Some(k) = known
            .iter()
            .find(|k| k.status == "known" && k.signature == sig)
        {
            let line = format!(
                "KNOWN-FINDING: property={} {} [{}]",
                prop.id(),
                k.what_fails,
                k.signature
            );
            if !known_lines.contains(&line) {
                known_lines.push(line);
            }
        } else {
            final_v.push(v);
        }
    }

    for l in &known_lines {
        pr.line(l);
    }
    for v in &final_v {
        let path = write_replay(prop.id(), v, seed, tier);
        pr.line(&format!(
            "VIOLATION property={} replay={}",
            prop.id(),
            path.display()
        ));
        pr.line(&format!("  signature: {}", v.sig));
        let d: String = v.detail.chars().take(1500).collect();
        pr.line(&format!("  detail: {}", d));
    }
    for i in &inconclusive {
        pr.line(&format!("INCONCLUSIVE property={} {}", prop.id(), i));
    }

    // evidence
    let extra_eval = evidence["evaluations"].as_u64().unwrap_or(0);
    let extra_nt = evidence["distinct_nontrivial"].as_u64().unwrap_or(0);
    if let Some(s) = evidence["samples"].as_array() {
        for x in s {
            if samples.len() < 12 {
                samples.push(x.clone());
            }
        }
    }
    let mut cov = json!({
        "evaluations": merged_eval + extra_eval,
        "distinct_nontrivial": nontrivial.len() as u64 + extra_nt,
        "rule": prop.rule(),
        "samples": samples,
        "generated_cases": merged_cases,
        "class_histogram": classes,
        "skipped": skipped,
        "excluded_by_construction": excluded,
        "known_finding_hits": known_hits,
        "shards": nshards,
        "scale": scale,
    });
    if let Some(o) = evidence.as_object() {
        for (k, v) in o {
            if !["evaluations", "distinct_nontrivial", "samples"].contains(&k.as_str()) {
                cov[k] = v.clone();
            }
        }
    }
    let ev = json!({
        "property_id": prop.id(),
        "tier": tier,
        "seed": seed,
        "level": "exploration",
        "coverage": cov,
        "assumptions": prop.assumptions(),
        "wall_s": start.elapsed().as_secs_f64(),
        "violations": final_v.len(),
        "known_findings_reported": known_lines.len(),
        "inconclusive": inconclusive,
    });
    let evdir = Path::new(&verif_root()).join("evidence");
    let _ = fs::create_dir_all(&evdir);
    let _ = fs::write(
        evdir.join(format!("{}.json", prop.id())),
        serde_json::to_vec_pretty(&ev).unwrap(),
    );
    let _ = fs::remove_dir_all(&work);

    pr.line(&format!(
        "{} tier={} seed={} cases={} evaluations={} distinct_nontrivial={} violations={} known={} wall={:.1}s",
        prop.id(),
        tier,
        seed,
        merged_cases,
        merged_eval + extra_eval,
        nontrivial.len() as u64 + extra_nt,
        final_v.len(),
        known_lines.len(),
        start.elapsed().as_secs_f64()
    ));
    if !final_v.is_empty() {
        1
    } else if !inconclusive.is_empty() {
        2
    } else {
        0
    }
}

/// Re-run one saved case, bypassing proptest. Strict: known findings are reported as failures
/// too (with a note), so a replay file always shows what it shows.
pub fn replay(prop: &dyn Prop, path: &Path, pr: &mut Printer) -> i32 {
    crate::outcome::install_panic_hook();
    let bytes = if path.extension().map_or(false, |e| e == "json") {
        let v: Value = serde_json::from_slice(&fs::read(path).expect("read replay")).expect("json");
        if let Some(name) = v["regression"].as_str() {
            let mut c = Ctx::default();
            for r in prop.regressions() {
                if r.name == name {
                    return match crate::outcome::guarded(|| (r.run)(&mut c)) {
                        Ok(Verdict::Fail { sig, detail }) => {
                            pr.line(&format!(
                                "VIOLATION property={} replay={}",
                                prop.id(),
                                path.display()
                            ));
                            pr.line(&format!("  signature: {}", sig));
                            pr.line(&format!("  detail: {}", detail));
                            1
                        }
                        Ok(_) => {
                            pr.line("replay: PASS");
                            0
                        }
                        Err((at, msg)) => {
                            pr.line(&format!(
                                "VIOLATION property={} replay={}",
                                prop.id(),
                                path.display()
                            ));
                            pr.line(&format!("  signature: panic@{}\n  detail: {}", at, msg));
                            1
                        }
                    };
                }
            }
            pr.line("unknown regression case");
            return 2;
        }
        unhex(v["choice_bytes_hex"].as_str().unwrap_or(""))
    } else {
        fs::read(path).expect("read replay")
    };
    let mut c = Ctx::default();
    let case = crate::outcome::guarded(|| prop.describe(&bytes)).unwrap_or(json!(null));
    pr.line(&format!(
        "case: {}",
        serde_json::to_string_pretty(&case).unwrap_or_default()
    ));
    if let Some(limit) = prop.hang_limit_s() {
        // run the case on a thread of its own first: a case that does not terminate is reported
        let (tx, rx) = std::sync::mpsc::channel();
        let hung = std::thread::scope(|sc| {
            let b = bytes.clone();
            sc.spawn(move || {
                let mut c = Ctx::default();
                let _ = crate::outcome::guarded(|| prop.check(&b, &mut c));
                let _ = tx.send(());
            });
            if rx.recv_timeout(Duration::from_secs(limit)).is_err() {
                pr.line(&format!(
                    "VIOLATION property={} replay={}",
                    prop.id(),
                    path.display()
                ));
                pr.line(&format!(
                    "  signature: no-termination\n  detail: the case did not finish within {} s",
                    limit
                ));
                std::process::exit(1);
            }
            false
        });
        let _ = hung;
    }
    match crate::outcome::guarded(|| prop.check(&bytes, &mut c)) {
        Ok(Verdict::Pass) => {
            pr.line("replay: PASS");
            0
        }
        Ok(Verdict::Skip(w)) => {
            pr.line(&format!("replay: SKIP ({})", w));
            0
        }
        Ok(Verdict::Fail { sig, detail }) => {
            pr.line(&format!(
                "VIOLATION property={} replay={}",
                prop.id(),
                path.display()
            ));
            pr.line(&format!("  signature: {}", sig));
            pr.line(&format!("  detail: {}", detail));
            1
        }
        Err((at, msg)) => {
            pr.line(&format!(
                "VIOLATION property={} replay={}",
                prop.id(),
                path.display()
            ));
            pr.line(&format!("  signature: panic@{}", at));
            pr.line(&format!("  detail: {}", msg));
            1
        }
    }
}
