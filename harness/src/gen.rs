//! Generators: parser definitions (conventional fragment), sentences and their renderings.
//! Every choice is read from a `Un` choice sequence.

use std::collections::HashSet;

use crate::spec::*;
use crate::un::Un;
use crate::value::V;

pub const SHORTS: &[char] = &[
    'a', 'b', 'c', 'd', 'e', 'f', 'g', 'i', 'j', 'k', 'l', 'm', 'n', 'o', 'p', 'q', 'r', 's', 't',
    'u', 'v', 'w', 'x', 'y', 'z', 'A', 'B', 'C', 'ñ', 'ж', '口', '1',
    // the edges of every UTF-8 encoding length: 2 bytes (U+0080, U+07FF), 3 bytes (U+0800 with
    // lead byte 0xE0, U+0E01, U+FFFD), 4 bytes (U+10000, U+1F600)
    '\u{80}', '\u{7ff}', '\u{800}', 'ก', '\u{fffd}', '\u{10000}', '😀',
];

pub const LONGS: &[&str] = &[
    "alpha", "beta", "gamma", "delta", "name", "file", "out", "level", "verbose", "quiet",
    "naïve", "口水鸡", "жар", "a-b", "x1", "n", "dry-run", "k9", "color", "jobs", "target", "mode",
    "size", "depth", "user", "ünï", "from", "to", "with-x", "no-y",
];

pub const CMDS: &[&str] = &[
    "run", "build", "test", "add", "rm", "ls", "x", "ünï", "sub", "go", "init", "push",
];

/// Allocates unique names / ids over one whole definition
#[derive(Default)]
pub struct Names {
    shorts: HashSet<char>,
    longs: HashSet<String>,
    cmds: HashSet<String>,
    next_id: usize,
    next_val: usize,
    pub ascii_only: bool,
    /// sometimes produce very long option names (rendering properties)
    pub long_names: bool,
    /// string values are sometimes empty (callers whose oracle does not need unique tokens)
    pub empty_values: bool,
    /// long names of every length from 8 to 28 characters (column alignment in help)
    pub mid_names: bool,
}

impl Names {
    pub fn new() -> Self {
        let mut n = Names::default();
        // reserved for the default help/version flags
        n.shorts.insert('h');
        n.shorts.insert('V');
        n.longs.insert("help".into());
        n.longs.insert("version".into());
        n
    }
    pub fn id(&mut self) -> usize {
        self.next_id += 1;
        self.next_id - 1
    }
    pub fn reserve_short(&mut self, c: char) {
        self.shorts.insert(c);
    }
    pub fn reserve_long(&mut self, l: &str) {
        self.longs.insert(l.to_owned());
    }
    pub fn short(&mut self, u: &mut Un) -> Option<char> {
        let start = u.below(SHORTS.len());
        for k in 0..SHORTS.len() {
            let c = SHORTS[(start + k) % SHORTS.len()];
            if self.ascii_only && !c.is_ascii() {
                continue;
            }
            if self.shorts.insert(c) {
                return Some(c);
            }
        }
        None
    }
    pub fn long(&mut self, u: &mut Un) -> String {
        if self.mid_names && u.chance(110) {
            let n = 8 + u.below(21);
            let mut l = format!("mid{}", self.longs.len());
            while l.len() < n {
                l.push(if l.len() % 5 == 4 { '-' } else { 'x' });
            }
            let l = l.trim_end_matches('-').to_owned();
            if self.longs.insert(l.clone()) {
                return l;
            }
        }
        if self.long_names && u.chance(50) {
            let n = 20 + u.below(45);
            let mut l = format!("long{}", self.longs.len());
            while l.len() < n {
                l.push_str(["-option", "-name", "-x", "-ünï"][l.len() % 4]);
            }
            if self.longs.insert(l.clone()) {
                return l;
            }
        }
        let start = u.below(LONGS.len());
        for k in 0..LONGS.len() {
            let l = LONGS[(start + k) % LONGS.len()];
            if self.ascii_only && !l.is_ascii() {
                continue;
            }
            if !self.longs.contains(l) && !self.cmds.contains(l) {
                self.longs.insert(l.to_owned());
                return l.to_owned();
            }
        }
        let mut k = self.longs.len();
        loop {
            let l = format!("opt{}", k);
            if self.longs.insert(l.clone()) {
                return l;
            }
            k += 1;
        }
    }
    pub fn cmd(&mut self, u: &mut Un) -> String {
        let start = u.below(CMDS.len());
        for k in 0..CMDS.len() {
            let l = CMDS[(start + k) % CMDS.len()];
            if self.ascii_only && !l.is_ascii() {
                continue;
            }
            if self.cmds.insert(l.to_owned()) {
                return l.to_owned();
            }
        }
        let mut k = self.cmds.len();
        loop {
            let l = format!("cmd{}", k);
            if self.cmds.insert(l.clone()) {
                return l;
            }
            k += 1;
        }
    }
    /// one-character command alias, unique among command names
    pub fn cmd_short(&mut self, u: &mut Un) -> Option<char> {
        let pool = ['R', 'T', 'y', 'Z', 'ю'];
        let start = u.below(pool.len());
        for k in 0..pool.len() {
            let c = pool[(start + k) % pool.len()];
            if self.ascii_only && !c.is_ascii() {
                continue;
            }
            if self.cmds.insert(c.to_string()) {
                return Some(c);
            }
        }
        None
    }
    /// unique value token
    pub fn val(&mut self) -> usize {
        self.next_val += 1;
        self.next_val
    }
}

#[derive(Clone, Debug)]
pub struct ConvCfg {
    pub max_named: usize,
    pub max_depth: usize,
    pub max_pos: usize,
    pub strictness: bool,
    pub help: bool,
    pub env: bool,
    pub typed: bool,
    pub version: bool,
    /// prefer a command tree over positionals
    pub force_cmds: bool,
    /// levels sometimes carry `fallback_to_usage()`
    pub usage_fallback: bool,
    /// repeated named items are sometimes gathered with `collect::<Vec<_>>()` instead of `many()`
    pub collect: bool,
}

impl Default for ConvCfg {
    fn default() -> Self {
        ConvCfg {
            max_named: 8,
            max_depth: 3,
            max_pos: 3,
            strictness: false,
            help: false,
            env: false,
            typed: true,
            version: false,
            force_cmds: false,
            usage_fallback: false,
            collect: false,
        }
    }
}

pub fn gen_ty(u: &mut Un, typed: bool) -> Ty {
    if typed {
        *u.pick(&[Ty::Str, Ty::Str, Ty::Os, Ty::Path, Ty::U32, Ty::I64])
    } else {
        *u.pick(&[Ty::Str, Ty::Str, Ty::Os, Ty::Path])
    }
}

pub fn metavar_for(ty: Ty, u: &mut Un) -> String {
    let m = match ty {
        Ty::Str => ["ARG", "NAME", "S"],
        Ty::Os => ["OS", "RAW", "O"],
        Ty::Path => ["FILE", "PATH", "DIR"],
        Ty::U32 => ["N", "NUM", "COUNT"],
        Ty::I64 => ["INT", "DELTA", "I"],
    };
    (*u.pick(&m)).to_owned()
}

pub fn gen_named_leaf(u: &mut Un, names: &mut Names, kind: NamedKind) -> NamedSpec {
    // 0: long only, 1: short only, 2: both, 3: both + aliases
    let shape = u.weighted(&[3, 2, 3, 2]);
    let mut shorts = Vec::new();
    let mut longs = Vec::new();
    match shape {
        0 => longs.push(names.long(u)),
        1 => match names.short(u) {
            Some(c) => shorts.push(c),
            None => longs.push(names.long(u)),
        },
        2 => {
            if let Some(c) = names.short(u) {
                shorts.push(c);
            }
            longs.push(names.long(u));
        }
        _ => {
            if let Some(c) = names.short(u) {
                shorts.push(c);
            }
            longs.push(names.long(u));
            if u.bool() {
                if let Some(c) = names.short(u) {
                    shorts.push(c);
                }
            }
            if u.bool() || shorts.len() < 2 {
                longs.push(names.long(u));
            }
        }
    }
    NamedSpec {
        id: names.id(),
        shorts,
        longs,
        envs: Vec::new(),
        help: None,
        kind,
    }
}

/// A named field of the conventional fragment: a leaf under one arity wrapper
pub fn gen_conv_field(u: &mut Un, names: &mut Names, cfg: &ConvCfg) -> Node {
    let k = u.weighted(&[2, 1, 2, 1, 2, 3, 3, 3, 2, 2, 2, 1, 1, 1]);
    let flag_kinds = |k: usize| match k {
        0 => NamedKind::Switch,
        1 => NamedKind::Flag,
        _ => NamedKind::ReqFlag,
    };
    if k <= 4 || k == 12 || k == 13 {
        let leaf = gen_named_leaf(u, names, flag_kinds(k.min(2)));
        let n = Node::Named(leaf);
        return match k {
            3 => Node::Optional {
                n: n.b(),
                catch: false,
            },
            4 => Node::Count(n.b()),
            12 if cfg.collect && u.chance(85) => Node::Collect {
                n: n.b(),
                catch: false,
            },
            12 => Node::Many {
                n: n.b(),
                catch: false,
            },
            13 => Node::Some {
                n: n.b(),
                catch: false,
                msg: "need at least one".into(),
            },
            _ => n,
        };
    }
    let ty = gen_ty(u, cfg.typed);
    let metavar = metavar_for(ty, u);
    let leaf = gen_named_leaf(
        u,
        names,
        NamedKind::Arg {
            ty,
            metavar,
            adjacent: false,
        },
    );
    let n = Node::Named(leaf);
    match k {
        5 => n,
        6 => Node::Optional {
            n: n.b(),
            catch: false,
        },
        7 if cfg.collect && u.chance(85) => Node::Collect {
            n: n.b(),
            catch: false,
        },
        7 => Node::Many {
            n: n.b(),
            catch: false,
        },
        8 => Node::Some {
            n: n.b(),
            catch: false,
            msg: "need at least one value".into(),
        },
        9 => Node::Fallback {
            n: n.b(),
            value: "dflt".into(),
            shown: u.bool(),
        },
        10 => Node::Last(n.b()),
        _ => Node::FallbackWith {
            n: n.b(),
            ok: u.chance(200),
            value: "dflt-with".into(),
        },
    }
}

pub fn gen_pos(u: &mut Un, names: &mut Names, cfg: &ConvCfg, strict: Strictness) -> PosSpec {
    let ty = gen_ty(u, cfg.typed);
    PosSpec {
        id: names.id(),
        metavar: metavar_for(ty, u),
        ty,
        help: None,
        strict,
    }
}

/// positional suffix `required* optional? (many|some)?`
pub fn gen_pos_suffix(u: &mut Un, names: &mut Names, cfg: &ConvCfg) -> Vec<Node> {
    let mut out = Vec::new();
    let nreq = u.below(cfg.max_pos.min(2) + 1);
    for _ in 0..nreq {
        out.push(Node::Pos(gen_pos(u, names, cfg, Strictness::Unrestricted)));
    }
    if out.len() < cfg.max_pos && u.chance(100) {
        out.push(Node::Optional {
            n: Node::Pos(gen_pos(u, names, cfg, Strictness::Unrestricted)).b(),
            catch: false,
        });
    }
    if out.len() < cfg.max_pos && u.chance(110) {
        let p = Node::Pos(gen_pos(u, names, cfg, Strictness::Unrestricted));
        // `[A] B...` with one word is ambiguous as a grammar, so `some` never follows an optional
        let after_optional = matches!(out.last(), Some(Node::Optional { .. }));
        if u.chance(200) || after_optional {
            out.push(Node::Many {
                n: p.b(),
                catch: false,
            });
        } else {
            out.push(Node::Some {
                n: p.b(),
                catch: false,
                msg: "need a word".into(),
            });
        }
    }
    out
}

pub fn gen_conv_level(u: &mut Un, names: &mut Names, cfg: &ConvCfg, depth: usize) -> Level {
    // tail: 0 nothing, 1 positionals, 2 commands
    let tail = if depth < cfg.max_depth {
        if cfg.force_cmds {
            u.weighted(&[0, 1, 7])
        } else {
            u.weighted(&[1, 3, 4])
        }
    } else {
        u.weighted(&[1, 3, 0])
    };
    let n_named = u.below(cfg.max_named + 1);
    let mut fields: Vec<Node> = (0..n_named)
        .map(|_| gen_conv_field(u, names, cfg))
        .collect();
    let mut tail_nodes: Vec<Node> = Vec::new();
    match tail {
        1 => tail_nodes = gen_pos_suffix(u, names, cfg),
        2 => {
            let ncmd = 1 + u.below(3);
            let mut cmds = Vec::new();
            for _ in 0..ncmd {
                let name = names.cmd(u);
                let mut shorts = Vec::new();
                let mut longs = Vec::new();
                if u.chance(90) {
                    if let Some(c) = names.cmd_short(u) {
                        shorts.push(c);
                    }
                }
                if u.chance(70) {
                    longs.push(names.cmd(u));
                }
                let level = gen_conv_level(u, names, cfg, depth + 1);
                cmds.push(Node::Cmd(Box::new(CmdSpec {
                    name,
                    shorts,
                    longs,
                    help: None,
                    adjacent: false,
                    level,
                })));
            }
            let alt = Node::Alt(cmds);
            tail_nodes.push(if u.chance(90) {
                Node::Optional {
                    n: alt.b(),
                    catch: false,
                }
            } else {
                alt
            });
        }
        _ => {}
    }
    fields.truncate(crate::build::MAX_SEQ - tail_nodes.len());
    fields.extend(tail_nodes);
    if fields.is_empty() {
        // an empty parser
        fields.push(Node::Pure("nothing".into()));
    }
    let mut info = InfoSpec::default();
    if cfg.version && depth == 0 && u.chance(128) {
        info.version = Some("1.2.3".into());
    }
    if cfg.usage_fallback && u.chance(60) {
        info.fallback_to_usage = true;
    }
    Level {
        body: Node::Seq(fields),
        info,
    }
}

// ---------------------------------------------------------------------------------------------
// sentences
// ---------------------------------------------------------------------------------------------

#[derive(Clone, Debug, PartialEq, Eq, Hash)]
pub enum Alias {
    Short(char),
    Long(String),
}

/// one named occurrence
#[derive(Clone, Debug, PartialEq, Eq, Hash)]
pub struct Occ {
    pub leaf: usize,
    pub alias: Alias,
    /// None for flags
    pub value: Option<Vec<u8>>,
    /// the argument accepts only attached spellings
    pub adjacent_only: bool,
}

impl Occ {
    pub fn alias_is_ascii(&self) -> bool {
        match &self.alias {
            Alias::Short(c) => c.is_ascii(),
            Alias::Long(l) => l.is_ascii(),
        }
    }
}

#[derive(Clone, Debug, PartialEq, Eq, Hash)]
pub struct LevelSent {
    pub named: Vec<Occ>,
    pub words: Vec<Vec<u8>>,
    /// name (or alias) used and the nested sentence
    pub cmd: Option<(String, Box<LevelSent>)>,
}

pub fn pick_alias(u: &mut Un, n: &NamedSpec) -> Alias {
    let total = n.shorts.len() + n.longs.len();
    let i = u.below(total);
    if i < n.shorts.len() {
        Alias::Short(n.shorts[i])
    } else {
        Alias::Long(n.longs[i - n.shorts.len()].clone())
    }
}

/// a fresh valid value for a type, unique over the sentence
pub fn gen_value(u: &mut Un, names: &mut Names, ty: Ty) -> Vec<u8> {
    let k = names.val();
    match ty {
        Ty::Str => {
            if names.empty_values && u.chance(8) {
                Vec::new()
            } else {
                format!("v{}", k).into_bytes()
            }
        }
        Ty::Os | Ty::Path => {
            if names.empty_values && u.chance(6) {
                Vec::new()
            } else if u.chance(40) {
                let mut b = format!("o{}", k).into_bytes();
                b.push(0xff);
                b
            } else {
                format!("o{}", k).into_bytes()
            }
        }
        Ty::U32 => format!("{}", 1000 + k).into_bytes(),
        Ty::I64 => {
            if u.chance(60) {
                format!("-{}", 1000 + k).into_bytes()
            } else {
                format!("{}", 2000 + k).into_bytes()
            }
        }
    }
}

fn occ_for(u: &mut Un, names: &mut Names, n: &NamedSpec) -> (Occ, V) {
    match &n.kind {
        NamedKind::Arg { ty, adjacent, .. } => {
            let raw = gen_value(u, names, *ty);
            let v = ty.convert(&raw).expect("generated value converts");
            (
                Occ {
                    leaf: n.id,
                    alias: pick_alias(u, n),
                    value: Some(raw),
                    adjacent_only: *adjacent,
                },
                v,
            )
        }
        NamedKind::Switch | NamedKind::Flag => (
            Occ {
                leaf: n.id,
                alias: pick_alias(u, n),
                value: None,
                adjacent_only: false,
            },
            V::Bool(true),
        ),
        NamedKind::ReqFlag => (
            Occ {
                leaf: n.id,
                alias: pick_alias(u, n),
                value: None,
                adjacent_only: false,
            },
            V::Unit,
        ),
    }
}

fn leaf_of(n: &Node) -> Option<&NamedSpec> {
    match n {
        Node::Named(x) => Some(x),
        _ => None,
    }
}

fn pos_of(n: &Node) -> Option<&PosSpec> {
    match n {
        Node::Pos(x) => Some(x),
        _ => None,
    }
}

/// Generate a sentence of a conventional level together with the value it denotes.
pub fn gen_conv_sentence(u: &mut Un, names: &mut Names, level: &Level) -> (LevelSent, V) {
    let fields = match &level.body {
        Node::Seq(xs) => xs,
        _ => panic!("conventional level must be a Seq"),
    };
    let mut sent = LevelSent {
        named: Vec::new(),
        words: Vec::new(),
        cmd: None,
    };
    let mut vals = Vec::new();
    // positional words are assigned in order: once an optional positional is left out nothing
    // can follow it
    let mut pos_open = true;
    for f in fields {
        let v = match f {
            Node::Pure(s) => V::Const(s.clone()),
            Node::Named(n) => match n.kind {
                NamedKind::Switch | NamedKind::Flag => {
                    if u.bool() {
                        let (o, v) = occ_for(u, names, n);
                        sent.named.push(o);
                        v
                    } else {
                        V::Bool(false)
                    }
                }
                _ => {
                    let (o, v) = occ_for(u, names, n);
                    sent.named.push(o);
                    v
                }
            },
            Node::Pos(p) => {
                let raw = gen_value(u, names, p.ty);
                let v = p.ty.convert(&raw).unwrap();
                sent.words.push(raw);
                v
            }
            Node::Optional { n, .. } => {
                if let Some(l) = leaf_of(n) {
                    if u.bool() {
                        let (o, v) = occ_for(u, names, l);
                        sent.named.push(o);
                        V::some(v)
                    } else {
                        V::none()
                    }
                } else if let Some(p) = pos_of(n) {
                    if u.bool() {
                        let raw = gen_value(u, names, p.ty);
                        let v = p.ty.convert(&raw).unwrap();
                        sent.words.push(raw);
                        V::some(v)
                    } else {
                        pos_open = false;
                        V::none()
                    }
                } else if let Node::Alt(cmds) = &**n {
                    if u.chance(190) {
                        let (name, sub, v) = gen_cmd_choice(u, names, cmds);
                        sent.cmd = Some((name, Box::new(sub)));
                        V::some(v)
                    } else {
                        V::none()
                    }
                } else {
                    panic!("unexpected optional in conventional level")
                }
            }
            Node::Many { n, .. } | Node::Some { n, .. } | Node::Collect { n, .. } => {
                let min = usize::from(matches!(f, Node::Some { .. }));
                let mut k = min + u.weighted(&[2, 3, 2, 1]).min(3 - min);
                if pos_of(n).is_some() && !pos_open {
                    k = 0;
                }
                let mut xs = Vec::new();
                for _ in 0..k {
                    if let Some(l) = leaf_of(n) {
                        let (o, v) = occ_for(u, names, l);
                        sent.named.push(o);
                        xs.push(v);
                    } else if let Some(p) = pos_of(n) {
                        let raw = gen_value(u, names, p.ty);
                        xs.push(p.ty.convert(&raw).unwrap());
                        sent.words.push(raw);
                    }
                }
                V::List(xs)
            }
            Node::Count(n) => {
                let l = leaf_of(n).unwrap();
                let k = u.weighted(&[2, 3, 2, 1]);
                for _ in 0..k {
                    let (o, _) = occ_for(u, names, l);
                    sent.named.push(o);
                }
                V::Count(k)
            }
            Node::Last(n) => {
                let l = leaf_of(n).unwrap();
                let k = 1 + u.weighted(&[3, 2, 1]);
                let mut last = V::Unit;
                for _ in 0..k {
                    let (o, v) = occ_for(u, names, l);
                    sent.named.push(o);
                    last = v;
                }
                last
            }
            Node::Fallback { n, value, .. } => {
                let l = leaf_of(n).unwrap();
                if u.bool() {
                    let (o, v) = occ_for(u, names, l);
                    sent.named.push(o);
                    v
                } else {
                    V::Const(value.clone())
                }
            }
            Node::FallbackWith { n, ok, value } => {
                let l = leaf_of(n).unwrap();
                if !*ok || u.bool() {
                    let (o, v) = occ_for(u, names, l);
                    sent.named.push(o);
                    v
                } else {
                    V::Const(value.clone())
                }
            }
            Node::Alt(cmds) => {
                let (name, sub, v) = gen_cmd_choice(u, names, cmds);
                sent.cmd = Some((name, Box::new(sub)));
                v
            }
            other => panic!("unexpected node in conventional level: {:?}", other),
        };
        vals.push(v);
    }
    (sent, V::Tup(vals))
}

fn gen_cmd_choice(u: &mut Un, names: &mut Names, cmds: &[Node]) -> (String, LevelSent, V) {
    let i = u.below(cmds.len());
    let c = match &cmds[i] {
        Node::Cmd(c) => c,
        _ => panic!("command alternative expected"),
    };
    let all = c.all_names();
    let used = u.pick(&all).clone();
    let (sub, v) = gen_conv_sentence(u, names, &c.level);
    (
        used,
        sub,
        V::Alt(i, Box::new(V::Cmd(c.name.clone(), Box::new(v)))),
    )
}

// ---------------------------------------------------------------------------------------------
// rendering
// ---------------------------------------------------------------------------------------------

/// how one named occurrence is spelled
#[derive(Clone, Copy, Debug, PartialEq, Eq, Hash)]
pub enum Spelling {
    /// `--name value` / `-n value` / `--flag` / `-f`
    Detached,
    /// `--name=value` / `-n=value`
    Equals,
    /// `-nvalue`
    Glued,
}

/// can this value be written as a separate item after the name
pub fn detachable(value: &[u8]) -> bool {
    !(value.len() >= 2 && value[0] == b'-')
}

/// can this value be glued to a short name without `=`
pub fn gluable(value: &[u8]) -> bool {
    !value.is_empty() && value[0] != b'=' && std::str::from_utf8(value).is_ok()
}

pub fn spellings_for(o: &Occ) -> Vec<Spelling> {
    let mut r = Vec::new();
    match (&o.alias, &o.value) {
        (_, None) => r.push(Spelling::Detached),
        (Alias::Long(_), Some(v)) => {
            if detachable(v) && !o.adjacent_only {
                r.push(Spelling::Detached);
            }
            r.push(Spelling::Equals);
        }
        (Alias::Short(_), Some(v)) => {
            if detachable(v) && !o.adjacent_only {
                r.push(Spelling::Detached);
            }
            r.push(Spelling::Equals);
            if gluable(v) {
                r.push(Spelling::Glued);
            }
        }
    }
    r
}

pub fn spell(o: &Occ, s: Spelling) -> Vec<Vec<u8>> {
    let name: Vec<u8> = match &o.alias {
        Alias::Short(c) => format!("-{}", c).into_bytes(),
        Alias::Long(l) => format!("--{}", l).into_bytes(),
    };
    match (&o.value, s) {
        (None, _) => vec![name],
        (Some(v), Spelling::Detached) => vec![name, v.clone()],
        (Some(v), Spelling::Equals) => {
            let mut n = name;
            n.push(b'=');
            n.extend_from_slice(v);
            vec![n]
        }
        (Some(v), Spelling::Glued) => {
            let mut n = name;
            n.extend_from_slice(v);
            vec![n]
        }
    }
}

/// A rendered block: items that must stay together and in order
#[derive(Clone, Debug, PartialEq, Eq)]
pub struct Block {
    pub items: Vec<Vec<u8>>,
    /// leaf ids of the occurrences inside
    pub leaves: Vec<usize>,
}

#[derive(Clone, Debug, Default)]
pub struct RenderStats {
    pub clusters: usize,
    pub equals: usize,
    pub glued: usize,
    pub aliases_long: usize,
    pub dashdash: bool,
    pub moved_named: usize,
}

/// permutation of blocks that keeps the relative order of blocks sharing a leaf
pub fn stable_shuffle(u: &mut Un, occs: &[Occ]) -> Vec<Occ> {
    let perm = u.permutation(occs.len());
    let shuffled: Vec<&Occ> = perm.iter().map(|&i| &occs[i]).collect();
    // positions taken by each leaf in the shuffled order get that leaf's occurrences in the
    // original order
    let mut out: Vec<Option<Occ>> = vec![None; occs.len()];
    let mut leaves: Vec<usize> = Vec::new();
    for o in occs {
        if !leaves.contains(&o.leaf) {
            leaves.push(o.leaf);
        }
    }
    for l in leaves {
        let slots: Vec<usize> = shuffled
            .iter()
            .enumerate()
            .filter(|(_, o)| o.leaf == l)
            .map(|(i, _)| i)
            .collect();
        let originals: Vec<&Occ> = occs.iter().filter(|o| o.leaf == l).collect();
        for (s, o) in slots.iter().zip(originals) {
            out[*s] = Some(o.clone());
        }
    }
    out.into_iter().map(Option::unwrap).collect()
}

pub struct RenderCfg {
    pub shuffle: bool,
    pub clusters: bool,
    pub dashdash: bool,
    /// fixed spelling (None: choose per occurrence)
    pub spelling: Option<Spelling>,
}

impl Default for RenderCfg {
    fn default() -> Self {
        RenderCfg {
            shuffle: true,
            clusters: true,
            dashdash: true,
            spelling: None,
        }
    }
}

/// spell the named occurrences of one level into blocks, optionally merging short flags into
/// clusters
pub fn named_blocks(
    u: &mut Un,
    occs: &[Occ],
    cfg: &RenderCfg,
    stats: &mut RenderStats,
) -> Vec<Block> {
    let mut blocks: Vec<Block> = Vec::new();
    let mut i = 0;
    while i < occs.len() {
        let o = &occs[i];
        // try to start a cluster of short flags
        if cfg.clusters && o.value.is_none() && matches!(o.alias, Alias::Short(_)) && u.chance(200)
        {
            let mut letters = String::new();
            let mut leaves = Vec::new();
            let mut j = i;
            while j < occs.len() && letters.chars().count() < 5 {
                match (&occs[j].alias, &occs[j].value) {
                    (Alias::Short(c), None) => {
                        letters.push(*c);
                        leaves.push(occs[j].leaf);
                        j += 1;
                    }
                    _ => break,
                }
                if !u.chance(170) {
                    break;
                }
            }
            // optionally end the cluster with a short argument
            let mut tail: Option<Vec<u8>> = None;
            let mut extra: Option<Vec<u8>> = None;
            if j < occs.len() && u.chance(110) {
                if let (Alias::Short(c), Some(v)) = (&occs[j].alias, &occs[j].value) {
                    let glue_ok = gluable(v) && !v.contains(&b'=');
                    let detach_ok = detachable(v) && !occs[j].adjacent_only;
                    if glue_ok && (u.chance(180) || !detach_ok) {
                        letters.push(*c);
                        tail = Some(v.clone());
                        leaves.push(occs[j].leaf);
                        j += 1;
                    } else if detach_ok {
                        letters.push(*c);
                        extra = Some(v.clone());
                        leaves.push(occs[j].leaf);
                        j += 1;
                    }
                }
            }
            if leaves.len() >= 2 {
                let mut item = format!("-{}", letters).into_bytes();
                if let Some(t) = tail {
                    item.extend_from_slice(&t);
                }
                let mut items = vec![item];
                if let Some(e) = extra {
                    items.push(e);
                }
                stats.clusters += 1;
                blocks.push(Block { items, leaves });
                i = j;
                continue;
            }
        }
        let sp = match cfg.spelling {
            Some(s) if spellings_for(o).contains(&s) => s,
            _ => {
                let ss = spellings_for(o);
                *u.pick(&ss)
            }
        };
        match sp {
            Spelling::Equals if o.value.is_some() => stats.equals += 1,
            Spelling::Glued => stats.glued += 1,
            _ => {}
        }
        if matches!(o.alias, Alias::Long(_)) {
            stats.aliases_long += 1;
        }
        blocks.push(Block {
            items: spell(o, sp),
            leaves: vec![o.leaf],
        });
        i += 1;
    }
    blocks
}

/// Render a conventional sentence into an argument vector
pub fn render_conv(
    u: &mut Un,
    sent: &LevelSent,
    cfg: &RenderCfg,
    stats: &mut RenderStats,
) -> Vec<Vec<u8>> {
    let occs = if cfg.shuffle {
        stable_shuffle(u, &sent.named)
    } else {
        sent.named.clone()
    };
    let blocks = named_blocks(u, &occs, cfg, stats);
    let mut out: Vec<Vec<u8>> = Vec::new();

    // number of trailing words to write after `--` (innermost level only)
    let mut after = 0;
    let mut use_dd = false;
    if sent.cmd.is_none() && cfg.dashdash && u.chance(70) {
        use_dd = true;
        after = u.below(sent.words.len() + 1);
    }
    // words starting with a dash can only be written after `--`
    let first_dashy = sent
        .words
        .iter()
        .position(|w| w.len() >= 2 && w[0] == b'-');
    if let Some(p) = first_dashy {
        if sent.cmd.is_none() {
            use_dd = true;
            after = after.max(sent.words.len() - p);
        }
    }
    let before = sent.words.len() - after;

    let mut bi = 0;
    let mut wi = 0;
    while bi < blocks.len() || wi < before {
        let take_block = if bi >= blocks.len() {
            false
        } else if wi >= before {
            true
        } else if cfg.shuffle {
            u.bool()
        } else {
            true
        };
        if take_block {
            if wi > 0 {
                stats.moved_named += 1;
            }
            out.extend(blocks[bi].items.iter().cloned());
            bi += 1;
        } else {
            out.push(sent.words[wi].clone());
            wi += 1;
        }
    }
    if use_dd {
        stats.dashdash = true;
        out.push(b"--".to_vec());
        for w in &sent.words[before..] {
            out.push(w.clone());
        }
    }
    if let Some((name, sub)) = &sent.cmd {
        out.push(name.as_bytes().to_vec());
        out.extend(render_conv(u, sub, cfg, stats));
    }
    out
}

pub fn sent_depth(s: &LevelSent) -> usize {
    1 + s.cmd.as_ref().map_or(0, |(_, x)| sent_depth(x))
}

pub fn sent_named_count(s: &LevelSent) -> usize {
    s.named.len() + s.cmd.as_ref().map_or(0, |(_, x)| sent_named_count(x))
}
