//! Running real parsers and classifying what came out.

use std::cell::RefCell;
use std::ffi::OsString;
use std::os::unix::ffi::OsStringExt;
use std::panic::{catch_unwind, AssertUnwindSafe};

use bpaf::{Args, OptionParser, ParseFailure};

use crate::value::V;

#[derive(Clone, Debug, PartialEq, Eq)]
pub enum Outcome {
    Value(V),
    Stdout { text: String, full: bool },
    Stderr(String),
    Completion(String),
    Panic { at: String, msg: String },
}

impl Outcome {
    pub fn class(&self) -> &'static str {
        match self {
            Outcome::Value(_) => "value",
            Outcome::Stdout { .. } => "stdout",
            Outcome::Stderr(_) => "stderr",
            Outcome::Completion(_) => "completion",
            Outcome::Panic { .. } => "panic",
        }
    }
    pub fn is_panic(&self) -> bool {
        matches!(self, Outcome::Panic { .. })
    }
    pub fn short(&self) -> String {
        let s = match self {
            Outcome::Value(v) => format!("Value({})", v),
            Outcome::Stdout { text, full } => format!("Stdout(full={}, {:?})", full, text),
            Outcome::Stderr(t) => format!("Stderr({:?})", t),
            Outcome::Completion(t) => format!("Completion({:?})", t),
            Outcome::Panic { at, msg } => format!("Panic(at {}, {:?})", at, msg),
        };
        if s.len() > 600 {
            let mut cut = 600;
            while !s.is_char_boundary(cut) {
                cut -= 1;
            }
            format!("{}…", &s[..cut])
        } else {
            s
        }
    }
}

thread_local! {
    static LAST_PANIC: RefCell<Option<(String, String)>> = const { RefCell::new(None) };
}

/// install a silent panic hook that remembers location and message
pub fn install_panic_hook() {
    std::panic::set_hook(Box::new(|info| {
        let at = info
            .location()
            .map(|l| format!("{}:{}", l.file(), l.line()))
            .unwrap_or_else(|| "?".to_owned());
        let msg = if let Some(s) = info.payload().downcast_ref::<&str>() {
            (*s).to_owned()
        } else if let Some(s) = info.payload().downcast_ref::<String>() {
            s.clone()
        } else {
            "<non-string panic>".to_owned()
        };
        LAST_PANIC.with(|p| *p.borrow_mut() = Some((at, msg)));
    }));
}

pub fn take_panic() -> (String, String) {
    LAST_PANIC
        .with(|p| p.borrow_mut().take())
        .unwrap_or_else(|| ("?".to_owned(), "?".to_owned()))
}

/// run a closure, converting a panic into `Err((location, message))`
pub fn guarded<T>(f: impl FnOnce() -> T) -> Result<T, (String, String)> {
    match catch_unwind(AssertUnwindSafe(f)) {
        Ok(v) => Ok(v),
        Err(_) => Err(take_panic()),
    }
}

pub fn os_args(argv: &[Vec<u8>]) -> Vec<OsString> {
    argv.iter().map(|b| OsString::from_vec(b.clone())).collect()
}

#[derive(Clone, Debug, Default)]
pub struct RunCfg<'a> {
    pub name: Option<&'a str>,
    pub comp: Option<usize>,
}

pub fn run_raw(
    p: &OptionParser<V>,
    argv: &[Vec<u8>],
    cfg: &RunCfg,
) -> Result<Result<V, ParseFailure>, (String, String)> {
    let os = os_args(argv);
    guarded(|| {
        let mut args = Args::from(os.as_slice());
        if let Some(n) = cfg.name {
            args = args.set_name(n);
        }
        #[cfg(feature = "autocomplete")]
        if let Some(r) = cfg.comp {
            args = args.set_comp(r);
        }
        p.run_inner(args)
    })
}

pub fn classify(r: Result<Result<V, ParseFailure>, (String, String)>) -> Outcome {
    match r {
        Err((at, msg)) => Outcome::Panic { at, msg },
        Ok(Ok(v)) => Outcome::Value(v),
        Ok(Err(ParseFailure::Stdout(d, full))) => match guarded(|| d.monochrome(full)) {
            Ok(text) => Outcome::Stdout { text, full },
            Err((at, msg)) => Outcome::Panic { at, msg },
        },
        Ok(Err(ParseFailure::Stderr(d))) => match guarded(|| d.monochrome(true)) {
            Ok(text) => Outcome::Stderr(text),
            Err((at, msg)) => Outcome::Panic { at, msg },
        },
        Ok(Err(ParseFailure::Completion(s))) => Outcome::Completion(s),
    }
}

pub fn run(p: &OptionParser<V>, argv: &[Vec<u8>]) -> Outcome {
    classify(run_raw(p, argv, &RunCfg::default()))
}

pub fn run_cfg(p: &OptionParser<V>, argv: &[Vec<u8>], cfg: &RunCfg) -> Outcome {
    classify(run_raw(p, argv, cfg))
}

pub fn argv_of(items: &[&str]) -> Vec<Vec<u8>> {
    items.iter().map(|s| s.as_bytes().to_vec()).collect()
}

pub fn show_argv(argv: &[Vec<u8>]) -> Vec<String> {
    argv.iter().map(|b| show_bytes(b)).collect()
}

pub fn show_bytes(b: &[u8]) -> String {
    match std::str::from_utf8(b) {
        Ok(s) => s.to_owned(),
        Err(_) => {
            let mut r = String::new();
            for &c in b {
                if c.is_ascii_graphic() || c == b' ' {
                    r.push(c as char);
                } else {
                    r.push_str(&format!("\\x{:02x}", c));
                }
            }
            r
        }
    }
}
