//! C17: generator of a family of `#[derive(Bpaf)]` types together with the hand written
//! combinator twin that the documentation prescribes for each, and a `Spec` of the same parser
//! used to generate argument vectors.
//!
//! The twin is produced by an explicit translation of the documented derive rules (naming rules
//! 1-5 of "Customizing flag and argument names", consumer rules 1-4 of "Customizing the
//! consumers", doc comment -> help / descr-header-footer, struct -> construct!(T {..}), enum ->
//! construct!([..]), command -> to_options().command(name)); it never calls bpaf_derive.

use crate::spec::*;
use crate::un::Un;

#[derive(Clone, Copy, Debug, PartialEq, Eq)]
pub enum Base {
    Str,
    U32,
    Path,
}

impl Base {
    fn rust(self) -> &'static str {
        match self {
            Base::Str => "String",
            Base::U32 => "u32",
            Base::Path => "PathBuf",
        }
    }
    fn ty(self) -> Ty {
        match self {
            Base::Str => Ty::Str,
            Base::U32 => Ty::U32,
            Base::Path => Ty::Path,
        }
    }
}

/// one field: derive side, twin side and Spec side
#[derive(Clone, Debug)]
pub struct FieldIR {
    /// rust identifier (None: tuple field)
    pub ident: Option<String>,
    pub rust_ty: String,
    /// doc comment lines
    pub doc: Vec<String>,
    /// content of #[bpaf(..)], may be empty
    pub attr: String,
    /// expression of the hand written parser
    pub twin: String,
    pub node: Node,
    /// number of implicit derive rules this field relies on
    pub implicit_rules: usize,
    pub explicit: bool,
}

pub struct Pools {
    idents: Vec<&'static str>,
    customs: Vec<(&'static str, char)>,
    next_id: usize,
    used_initials: Vec<char>,
}

impl Pools {
    pub fn new() -> Self {
        Pools {
            idents: vec![
                "alpha", "beta", "camelCase", "dry_run", "r#else", "file_name", "gamma", "i",
                "jobs", "k", "level_of_detail", "mode", "name", "output", "p", "quiet", "r#type",
                "user", "w", "x", "yes", "zone", "größe", "ö", "naïveMode",
            ],
            customs: vec![
                ("custom-a", 'A'),
                ("Other", 'B'),
                ("with_underscore", 'C'),
                ("naïve", 'ñ'),
                ("x1", 'D'),
                ("second-alias", 'E'),
                ("third", 'F'),
                ("fourth-name", 'G'),
            ],
            next_id: 0,
            used_initials: vec!['h', 'V'],
        }
    }
    fn id(&mut self) -> usize {
        self.next_id += 1;
        self.next_id
    }
    /// identifier whose kebab name starts with an unused letter
    fn ident(&mut self, u: &mut Un) -> Option<String> {
        if self.idents.is_empty() {
            return None;
        }
        let i = u.below(self.idents.len());
        let id = self.idents.remove(i);
        let first = kebab(id).chars().next().unwrap();
        if self.used_initials.contains(&first) {
            return self.ident(u);
        }
        self.used_initials.push(first);
        Some(id.to_owned())
    }
    fn custom(&mut self, u: &mut Un) -> Option<(String, char)> {
        if self.customs.is_empty() {
            return None;
        }
        let i = u.below(self.customs.len());
        let (l, c) = self.customs.remove(i);
        Some((l.to_owned(), c))
    }
}

/// documented conversion of an identifier into a name: kebab-case, raw prefix dropped
pub fn kebab(ident: &str) -> String {
    let s = ident.strip_prefix("r#").unwrap_or(ident);
    let mut r = String::new();
    for c in s.chars() {
        if c.is_ascii_uppercase() {
            if !r.is_empty() {
                r.push('-');
            }
            r.push(c.to_ascii_lowercase());
        } else if c == '_' || c == '-' {
            r.push('-');
        } else {
            r.push(c);
        }
    }
    r
}

fn lit(s: &str) -> String {
    format!("{:?}", s)
}

fn char_lit(c: char) -> String {
    format!("{:?}", c)
}

struct Naming {
    attr: Vec<String>,
    shorts: Vec<char>,
    longs: Vec<String>,
    envs: Vec<String>,
    implicit: usize,
}

/// naming annotations and the names they denote (documented rules 1-5)
fn gen_naming(u: &mut Un, pools: &mut Pools, ident: &str) -> Naming {
    let k = kebab(ident);
    let first = k.chars().next().unwrap();
    let single = k.chars().count() == 1;
    let mut n = Naming {
        attr: Vec::new(),
        shorts: Vec::new(),
        longs: Vec::new(),
        envs: Vec::new(),
        implicit: 0,
    };
    match u.below(9) {
        0 | 1 => {
            // rule 1: no annotation
            n.implicit += 1;
            if single {
                n.shorts.push(first);
            } else {
                n.longs.push(k.clone());
            }
        }
        2 => {
            n.attr.push("short".into());
            n.shorts.push(first);
            n.implicit += 1;
        }
        3 => {
            n.attr.push("long".into());
            n.longs.push(k.clone());
            n.implicit += 1;
        }
        4 => {
            n.attr.push("short".into());
            n.attr.push("long".into());
            n.shorts.push(first);
            n.longs.push(k.clone());
            n.implicit += 2;
        }
        5 => match pools.custom(u) {
            Some((_, c)) => {
                n.attr.push(format!("short({})", char_lit(c)));
                n.shorts.push(c);
            }
            None => {
                n.attr.push("long".into());
                n.longs.push(k.clone());
            }
        },
        6 => match pools.custom(u) {
            Some((l, _)) => {
                n.attr.push(format!("long({})", lit(&l)));
                n.longs.push(l);
            }
            None => {
                n.attr.push("long".into());
                n.longs.push(k.clone());
            }
        },
        7 => {
            // several names: first of each kind visible, others aliases
            n.attr.push("long".into());
            n.longs.push(k.clone());
            n.implicit += 1;
            if let Some((l, c)) = pools.custom(u) {
                n.attr.push(format!("long({})", lit(&l)));
                n.longs.push(l);
                if u.bool() {
                    n.attr.push(format!("short({})", char_lit(c)));
                    n.shorts.push(c);
                }
            }
        }
        _ => {
            n.attr.push("short".into());
            n.shorts.push(first);
            n.implicit += 1;
            if let Some((l, c)) = pools.custom(u) {
                n.attr.push(format!("short({})", char_lit(c)));
                n.shorts.push(c);
                n.attr.push(format!("long({})", lit(&l)));
                n.longs.push(l);
            }
        }
    }
    if u.chance(30) {
        let e = format!("BPAF_VERIF_C17_{}", pools.id());
        n.attr.push(format!("env({})", lit(&e)));
        n.envs.push(e);
    }
    n
}

fn gen_doc(u: &mut Un, tag: &str) -> Vec<String> {
    match u.below(5) {
        0 => Vec::new(),
        1 | 2 => vec![format!("Help for {}", tag)],
        3 => vec![format!("Help for {}", tag), "second line".to_owned()],
        _ => vec![
            format!("Help for {}", tag),
            String::new(),
            format!("Long description of {}", tag),
        ],
    }
}

fn doc_text(doc: &[String]) -> Option<String> {
    if doc.is_empty() {
        None
    } else {
        Some(doc.join("\n"))
    }
}

fn named_twin(n: &Naming, help: &Option<String>) -> String {
    let mut parts: Vec<String> = Vec::new();
    for s in &n.shorts {
        parts.push(format!("short({})", char_lit(*s)));
    }
    for l in &n.longs {
        parts.push(format!("long({})", lit(l)));
    }
    for e in &n.envs {
        parts.push(format!("env({})", lit(e)));
    }
    if let Some(h) = help {
        parts.push(format!("help({})", lit(h)));
    }
    parts.join(".")
}

fn named_spec(pools: &mut Pools, n: &Naming, help: &Option<String>, kind: NamedKind) -> NamedSpec {
    NamedSpec {
        id: pools.id(),
        shorts: n.shorts.clone(),
        longs: n.longs.clone(),
        envs: n.envs.clone(),
        help: help.clone().map(DocSpec::plain),
        kind,
    }
}

/// a named field from the catalogue of templates
pub fn gen_named_field(u: &mut Un, pools: &mut Pools) -> Option<FieldIR> {
    let ident = pools.ident(u)?;
    let naming = gen_naming(u, pools, &ident);
    let doc = gen_doc(u, &kebab(&ident));
    let help = doc_text(&doc);
    let base = *u.pick(&[Base::Str, Base::Str, Base::U32, Base::Path]);
    let t = base.rust();
    let nt = named_twin(&naming, &help);
    let mut attr: Vec<String> = naming.attr.clone();
    let mut implicit = naming.implicit;
    let mut explicit = !naming.attr.is_empty();
    let arg_kind = |mv: &str| NamedKind::Arg {
        ty: base.ty(),
        metavar: mv.to_owned(),
        adjacent: false,
    };
    let template = u.below(23);
    let (rust_ty, twin, node): (String, String, Node) = match template {
        0 | 1 => {
            implicit += 1;
            let s = named_spec(pools, &naming, &help, NamedKind::Switch);
            ("bool".into(), format!("{}.switch()", nt), Node::Named(s))
        }
        2 => {
            attr.push("switch".into());
            explicit = true;
            let s = named_spec(pools, &naming, &help, NamedKind::Switch);
            ("bool".into(), format!("{}.switch()", nt), Node::Named(s))
        }
        3 => {
            attr.push("flag(true, false)".into());
            explicit = true;
            let s = named_spec(pools, &naming, &help, NamedKind::Flag);
            ("bool".into(), format!("{}.flag(true, false)", nt), Node::Named(s))
        }
        4 => {
            implicit += 1;
            let s = named_spec(pools, &naming, &help, NamedKind::ReqFlag);
            ("()".into(), format!("{}.req_flag(())", nt), Node::Named(s))
        }
        5 | 6 => {
            implicit += 1;
            let s = named_spec(pools, &naming, &help, arg_kind("ARG"));
            (t.into(), format!("{}.argument::<{}>(\"ARG\")", nt, t), Node::Named(s))
        }
        7 => {
            implicit += 2;
            let s = named_spec(pools, &naming, &help, arg_kind("ARG"));
            (
                format!("Option<{}>", t),
                format!("{}.argument::<{}>(\"ARG\").optional()", nt, t),
                Node::Optional {
                    n: Node::Named(s).b(),
                    catch: false,
                },
            )
        }
        8 => {
            implicit += 2;
            let s = named_spec(pools, &naming, &help, arg_kind("ARG"));
            (
                format!("Vec<{}>", t),
                format!("{}.argument::<{}>(\"ARG\").many()", nt, t),
                Node::Many {
                    n: Node::Named(s).b(),
                    catch: false,
                },
            )
        }
        9 => {
            attr.push("argument(\"META\")".into());
            explicit = true;
            let s = named_spec(pools, &naming, &help, arg_kind("META"));
            (t.into(), format!("{}.argument::<{}>(\"META\")", nt, t), Node::Named(s))
        }
        10 => {
            // explicit consumer, implicit optional
            attr.push("argument(\"META\")".into());
            explicit = true;
            implicit += 1;
            let s = named_spec(pools, &naming, &help, arg_kind("META"));
            (
                format!("Option<{}>", t),
                format!("{}.argument::<{}>(\"META\").optional()", nt, t),
                Node::Optional {
                    n: Node::Named(s).b(),
                    catch: false,
                },
            )
        }
        11 => {
            attr.push(format!("argument::<{}>(\"META\")", t));
            attr.push("some(\"need at least one\")".into());
            explicit = true;
            let s = named_spec(pools, &naming, &help, arg_kind("META"));
            (
                format!("Vec<{}>", t),
                format!("{}.argument::<{}>(\"META\").some(\"need at least one\")", nt, t),
                Node::Some {
                    n: Node::Named(s).b(),
                    catch: false,
                    msg: "need at least one".into(),
                },
            )
        }
        12 => {
            attr.push("req_flag(())".into());
            attr.push("count".into());
            explicit = true;
            let s = named_spec(pools, &naming, &help, NamedKind::ReqFlag);
            (
                "usize".into(),
                format!("{}.req_flag(()).count()", nt),
                Node::Count(Node::Named(s).b()),
            )
        }
        13 => {
            attr.push("argument::<u32>(\"N\")".into());
            attr.push("map(double)".into());
            explicit = true;
            let s = named_spec(
                pools,
                &naming,
                &help,
                NamedKind::Arg {
                    ty: Ty::U32,
                    metavar: "N".into(),
                    adjacent: false,
                },
            );
            (
                "u32".into(),
                format!("{}.argument::<u32>(\"N\").map(double)", nt),
                Node::Named(s),
            )
        }
        14 => {
            attr.push("argument::<String>(\"N\")".into());
            attr.push("parse(parse_num)".into());
            explicit = true;
            let s = named_spec(
                pools,
                &naming,
                &help,
                NamedKind::Arg {
                    ty: Ty::U32,
                    metavar: "N".into(),
                    adjacent: false,
                },
            );
            (
                "u32".into(),
                format!("{}.argument::<String>(\"N\").parse(parse_num)", nt),
                Node::Named(s),
            )
        }
        15 => {
            // decor on an implicit consumer
            implicit += 1;
            let (expr, shown) = match base {
                Base::Str => ("String::from(\"dflt\")", u.bool()),
                Base::U32 => ("42", u.bool()),
                Base::Path => ("PathBuf::from(\"dflt\")", false),
            };
            attr.push(format!("fallback({})", expr));
            if shown {
                attr.push("display_fallback".into());
            }
            explicit = true;
            let s = named_spec(pools, &naming, &help, arg_kind("ARG"));
            (
                t.into(),
                format!(
                    "{}.argument::<{}>(\"ARG\").fallback({}){}",
                    nt,
                    t,
                    expr,
                    if shown { ".display_fallback()" } else { "" }
                ),
                Node::Fallback {
                    n: Node::Named(s).b(),
                    value: "dflt".into(),
                    shown,
                },
            )
        }
        16 => {
            implicit += 1;
            attr.push("guard(small, \"must be below 5000\")".into());
            explicit = true;
            let s = named_spec(
                pools,
                &naming,
                &help,
                NamedKind::Arg {
                    ty: Ty::U32,
                    metavar: "ARG".into(),
                    adjacent: false,
                },
            );
            (
                "u32".into(),
                format!("{}.argument::<u32>(\"ARG\").guard(small, \"must be below 5000\")", nt),
                Node::Guard {
                    n: Node::Named(s).b(),
                    pred: Pred::NumBelow(5000),
                    msg: "must be below 5000".into(),
                },
            )
        }
        17 => {
            implicit += 1;
            let which = u.below(3);
            let (a, tw): (&str, &str) = match which {
                0 => ("hide", ".hide()"),
                1 => ("hide_usage", ".hide_usage()"),
                _ => ("group_help(\"Grouped items\")", ".group_help(\"Grouped items\")"),
            };
            attr.push(a.into());
            explicit = true;
            let s = named_spec(pools, &naming, &help, arg_kind("ARG"));
            let inner = Node::Optional {
                n: Node::Named(s).b(),
                catch: false,
            };
            let node = match which {
                0 => Node::Hide(inner.b()),
                1 => Node::HideUsage(inner.b()),
                _ => Node::GroupHelp(inner.b(), DocSpec::plain("Grouped items")),
            };
            implicit += 1;
            (
                format!("Option<{}>", t),
                format!("{}.argument::<{}>(\"ARG\").optional(){}", nt, t, tw),
                node,
            )
        }
        18 => {
            implicit += 1;
            attr.push("last".into());
            explicit = true;
            let s = named_spec(pools, &naming, &help, arg_kind("ARG"));
            (
                t.into(),
                format!("{}.argument::<{}>(\"ARG\").last()", nt, t),
                Node::Last(Node::Named(s).b()),
            )
        }
        20 | 21 => {
            // implicit consumer, implicit many/optional, then a decoration whose meaning depends
            // on its position relative to them
            implicit += 2;
            attr.push("custom_usage(\"CUSTOM\")".into());
            explicit = true;
            let s = named_spec(pools, &naming, &help, arg_kind("ARG"));
            if template == 20 {
                (
                    format!("Vec<{}>", t),
                    format!("{}.argument::<{}>(\"ARG\").many().custom_usage(\"CUSTOM\")", nt, t),
                    Node::CustomUsage(
                        Node::Many {
                            n: Node::Named(s).b(),
                            catch: false,
                        }
                        .b(),
                        DocSpec::plain("CUSTOM"),
                    ),
                )
            } else {
                (
                    format!("Option<{}>", t),
                    format!("{}.argument::<{}>(\"ARG\").optional().custom_usage(\"CUSTOM\")", nt, t),
                    Node::CustomUsage(
                        Node::Optional {
                            n: Node::Named(s).b(),
                            catch: false,
                        }
                        .b(),
                        DocSpec::plain("CUSTOM"),
                    ),
                )
            }
        }
        22 => {
            // guard on the whole vector
            implicit += 2;
            attr.push("guard(at_most_two, \"at most two\")".into());
            explicit = true;
            let s = named_spec(
                pools,
                &naming,
                &help,
                NamedKind::Arg {
                    ty: Ty::U32,
                    metavar: "ARG".into(),
                    adjacent: false,
                },
            );
            (
                "Vec<u32>".into(),
                format!("{}.argument::<u32>(\"ARG\").many().guard(at_most_two, \"at most two\")", nt),
                Node::Many {
                    n: Node::Named(s).b(),
                    catch: false,
                },
            )
        }
        _ => {
            attr.push(format!("argument::<{}>(\"META\")", t));
            attr.push("optional".into());
            attr.push("catch".into());
            explicit = true;
            let s = named_spec(pools, &naming, &help, arg_kind("META"));
            (
                format!("Option<{}>", t),
                format!("{}.argument::<{}>(\"META\").optional().catch()", nt, t),
                Node::Optional {
                    n: Node::Named(s).b(),
                    catch: true,
                },
            )
        }
    };
    Some(FieldIR {
        ident: Some(ident),
        rust_ty,
        doc,
        attr: attr.join(", "),
        twin,
        node,
        implicit_rules: implicit,
        explicit,
    })
}

/// positional field; `named`: a named struct field carrying `positional`
pub fn gen_pos_field(u: &mut Un, pools: &mut Pools, named: bool, last: bool) -> Option<FieldIR> {
    let ident = if named { Some(pools.ident(u)?) } else { None };
    let base = *u.pick(&[Base::Str, Base::U32, Base::Path]);
    let t = base.rust();
    let doc = gen_doc(u, "positional");
    let help = doc_text(&doc);
    let custom_mv = named || u.bool();
    let mv = if custom_mv { "ITEM" } else { "ARG" };
    let mut attr = Vec::new();
    if named || custom_mv {
        attr.push(if custom_mv {
            "positional(\"ITEM\")".to_owned()
        } else {
            "positional".to_owned()
        });
    }
    let help_tw = help
        .as_ref()
        .map(|h| format!(".help({})", lit(h)))
        .unwrap_or_default();
    let spec = PosSpec {
        id: pools.id(),
        metavar: mv.into(),
        ty: base.ty(),
        help: help.clone().map(DocSpec::plain),
        strict: Strictness::Unrestricted,
    };
    let shape = if last { u.below(3) } else { 0 };
    let base_tw = format!("positional::<{}>({}){}", t, lit(mv), help_tw);
    let (rust_ty, twin, node) = match shape {
        0 => (t.to_owned(), base_tw, Node::Pos(spec)),
        1 => (
            format!("Option<{}>", t),
            format!("{}.optional()", base_tw),
            Node::Optional {
                n: Node::Pos(spec).b(),
                catch: false,
            },
        ),
        _ => (
            format!("Vec<{}>", t),
            format!("{}.many()", base_tw),
            Node::Many {
                n: Node::Pos(spec).b(),
                catch: false,
            },
        ),
    };
    Some(FieldIR {
        ident,
        rust_ty,
        doc,
        attr: attr.join(", "),
        twin,
        node,
        implicit_rules: usize::from(!custom_mv) + usize::from(shape != 0) + 1,
        explicit: custom_mv,
    })
}

/// a set of fields: braces (named) or parentheses (unnamed)
#[derive(Clone, Debug)]
pub struct FieldsIR {
    pub named: bool,
    pub fields: Vec<FieldIR>,
}

pub fn gen_fields(u: &mut Un, pools: &mut Pools, max_named: usize, allow_pos: bool) -> FieldsIR {
    if allow_pos && u.chance(40) {
        // tuple: positionals only
        let n = 1 + u.below(2);
        let mut fields = Vec::new();
        for i in 0..n {
            if let Some(f) = gen_pos_field(u, pools, false, i + 1 == n) {
                fields.push(f);
            }
        }
        return FieldsIR {
            named: false,
            fields,
        };
    }
    let n = 1 + u.below(max_named.max(1));
    let mut fields = Vec::new();
    for _ in 0..n {
        if let Some(f) = gen_named_field(u, pools) {
            fields.push(f);
        }
    }
    if allow_pos && u.chance(80) {
        if let Some(f) = gen_pos_field(u, pools, true, true) {
            fields.push(f);
        }
    }
    FieldsIR {
        named: true,
        fields,
    }
}

fn doc_lines(doc: &[String], indent: &str) -> String {
    doc.iter()
        .map(|l| {
            if l.is_empty() {
                format!("{}///\n", indent)
            } else {
                format!("{}/// {}\n", indent, l)
            }
        })
        .collect()
}

impl FieldsIR {
    fn derive_src(&self, indent: &str) -> String {
        let mut s = String::new();
        for f in &self.fields {
            s.push_str(&doc_lines(&f.doc, indent));
            if !f.attr.is_empty() {
                s.push_str(&format!("{}#[bpaf({})]\n", indent, f.attr));
            }
            match &f.ident {
                Some(i) => s.push_str(&format!("{}{}: {},\n", indent, i, f.rust_ty)),
                None => s.push_str(&format!("{}{},\n", indent, f.rust_ty)),
            }
        }
        s
    }
    /// `{ let a = ..; construct!(Path { a, b }) }`
    fn twin_src(&self, path: &str) -> String {
        let mut s = String::from("{\n");
        let mut names = Vec::new();
        for (i, f) in self.fields.iter().enumerate() {
            let var = match &f.ident {
                Some(id) => id.clone(),
                None => format!("f{}", i),
            };
            s.push_str(&format!("        let {} = {};\n", var, f.twin));
            names.push(var);
        }
        if self.named {
            s.push_str(&format!("        construct!({} {{ {} }})\n", path, names.join(", ")));
        } else {
            s.push_str(&format!("        construct!({}({}))\n", path, names.join(", ")));
        }
        s.push_str("    }");
        s
    }
    fn node(&self) -> Node {
        if self.fields.is_empty() {
            Node::Pure("unit".into())
        } else {
            Node::Seq(self.fields.iter().map(|f| f.node.clone()).collect())
        }
    }
}

#[derive(Clone, Debug)]
pub struct TypeIR {
    pub name: String,
    /// full derive source of the type (attributes, doc comments, definition)
    pub derive_src: String,
    /// name of the function bpaf_derive generates
    pub derived_fn: String,
    /// body of the twin function: an expression of type OptionParser<T>
    pub twin_src: String,
    /// the same parser as a Spec
    pub level: Level,
    /// derived function returns a Parser (not OptionParser)
    pub parser_mode: bool,
    pub implicit_rules: usize,
    pub explicit_annotations: usize,
    pub kind: &'static str,
}

fn snake(ty: &str) -> String {
    let mut r = String::new();
    for c in ty.chars() {
        if c.is_ascii_uppercase() {
            if !r.is_empty() {
                r.push('_');
            }
            r.push(c.to_ascii_lowercase());
        } else {
            r.push(c);
        }
    }
    r
}

struct TopDoc {
    lines: Vec<String>,
    descr: Option<String>,
    header: Option<String>,
    footer: Option<String>,
}

/// doc comment of an `options`/`command` type: blocks separated by double blank lines become
/// description, header and footer
fn gen_top_doc(u: &mut Un, tag: &str) -> TopDoc {
    let k = u.below(4);
    gen_top_doc_k(u, tag, k)
}

fn gen_top_doc_k(u: &mut Un, tag: &str, k: usize) -> TopDoc {
    match k {
        0 => TopDoc {
            lines: Vec::new(),
            descr: None,
            header: None,
            footer: None,
        },
        1 => TopDoc {
            lines: vec![format!("Description of {}", tag)],
            descr: Some(format!("Description of {}", tag)),
            header: None,
            footer: None,
        },
        2 => TopDoc {
            lines: vec![
                format!("Description of {}", tag),
                String::new(),
                String::new(),
                format!("Header of {}", tag),
            ],
            descr: Some(format!("Description of {}", tag)),
            header: Some(format!("Header of {}", tag)),
            footer: None,
        },
        _ => TopDoc {
            lines: {
                let mut l = vec![
                    format!("Description of {}", tag),
                    "continues here".to_owned(),
                    String::new(),
                    String::new(),
                    format!("Header of {}", tag),
                    String::new(),
                    String::new(),
                ];
                // an empty block before the footer (four blank lines) changes nothing
                if u.bool() {
                    l.push(String::new());
                    l.push(String::new());
                }
                l.push(format!("Footer of {}", tag));
                l
            },
            descr: Some(format!("Description of {}\ncontinues here", tag)),
            header: Some(format!("Header of {}", tag)),
            footer: Some(format!("Footer of {}", tag)),
        },
    }
}

fn info_twin(d: &TopDoc, version: &Option<String>, fallback_usage: bool) -> String {
    let mut s = String::new();
    if fallback_usage {
        s.push_str(".fallback_to_usage()");
    }
    if let Some(v) = version {
        s.push_str(&format!(".version({})", lit(v)));
    }
    if let Some(x) = &d.descr {
        s.push_str(&format!(".descr({})", lit(x)));
    }
    if let Some(x) = &d.header {
        s.push_str(&format!(".header({})", lit(x)));
    }
    if let Some(x) = &d.footer {
        s.push_str(&format!(".footer({})", lit(x)));
    }
    s
}

fn info_spec(d: &TopDoc, version: &Option<String>, fallback_usage: bool) -> InfoSpec {
    InfoSpec {
        descr: d.descr.clone().map(DocSpec::plain),
        header: d.header.clone().map(DocSpec::plain),
        footer: d.footer.clone().map(DocSpec::plain),
        version: version.clone(),
        fallback_to_usage: fallback_usage,
        ..InfoSpec::default()
    }
}

/// a struct type
pub fn gen_struct(u: &mut Un, ix: usize) -> TypeIR {
    let mut pools = Pools::new();
    let fields = gen_fields(u, &mut pools, 5, true);
    let mode = u.below(8);
    // a top level `command` takes its default name from the type name (kebab-case): those types
    // get a name of several words
    let name = if mode == 7 {
        format!("{}{}", ["RunTask", "CheckConnection", "DoIt", "FetchAllNow"][ix % 4], ix)
    } else {
        format!("Opts{}", ix)
    };
    // doc layout and explicit override are stratified over the type index so that every
    // combination occurs in every family
    let top = gen_top_doc_k(u, &name, ix % 4);
    let mut attrs: Vec<String> = Vec::new();
    let mut derived_fn = snake(&name);
    let mut parser_mode = false;
    let mut version = None;
    let mut fallback_usage = false;
    let mut boxed = false;
    let mut top_command: Option<(String, Vec<char>, Vec<String>)> = None;
    match mode {
        0 | 1 => attrs.push("options".into()),
        2 => {
            attrs.push("options".into());
            attrs.push("version(\"1.2.3\")".into());
            version = Some("1.2.3".to_owned());
        }
        3 => {
            attrs.push("options".into());
            attrs.push(format!("generate(make_{})", snake(&name)));
            attrs.push("private".into());
            derived_fn = format!("make_{}", snake(&name));
        }
        4 => {
            attrs.push("options".into());
            attrs.push("fallback_to_usage".into());
            fallback_usage = true;
        }
        5 => {
            parser_mode = true;
            if u.bool() {
                attrs.push("boxed".into());
                boxed = true;
            }
        }
        7 => {
            let cname = if u.chance(90) {
                let c = format!("task{}", ix);
                attrs.push(format!("command({})", lit(&c)));
                c
            } else {
                attrs.push("command".into());
                kebab(&name)
            };
            let mut shorts = Vec::new();
            let mut longs = Vec::new();
            if u.chance(80) {
                attrs.push("short('T')".into());
                shorts.push('T');
            }
            if u.chance(60) {
                attrs.push("long(\"top-alias\")".into());
                longs.push("top-alias".to_owned());
            }
            top_command = Some((cname, shorts, longs));
        }
        _ => parser_mode = true,
    }
    // explicit annotations override exactly the piece they name; the rest still comes from the
    // doc comment
    let mut top = top;
    let mut explicit_gh: Option<String> = None;
    if parser_mode {
        if u.chance(80) {
            let g = format!("Explicit group of {}", name);
            attrs.push(format!("group_help({})", lit(&g)));
            explicit_gh = Some(g);
        }
    } else if (ix / 4) % 5 != 4 {
        match (ix / 4) % 5 {
            0 => {
                let h = format!("Explicit header of {}", name);
                attrs.push(format!("header({})", lit(&h)));
                top.header = Some(h);
            }
            1 => {
                let f = format!("Explicit footer of {}", name);
                attrs.push(format!("footer({})", lit(&f)));
                top.footer = Some(f);
            }
            2 => {
                let d = format!("Explicit description of {}", name);
                attrs.push(format!("descr({})", lit(&d)));
                top.descr = Some(d);
            }
            _ => {
                let h = format!("Explicit header of {}", name);
                let f = format!("Explicit footer of {}", name);
                attrs.push(format!("header({})", lit(&h)));
                attrs.push(format!("footer({})", lit(&f)));
                top.header = Some(h);
                top.footer = Some(f);
            }
        }
    }
    // a parser-mode type with a default for the whole group, shown in the help
    let mut top_fallback = false;
    if parser_mode && !boxed && u.chance(70) {
        attrs.push(format!("fallback({}::default())", name));
        attrs.push("debug_fallback".into());
        top_fallback = true;
    }
    let mut src = String::new();
    src.push_str(&doc_lines(&top.lines, ""));
    if top_fallback {
        src.push_str("#[derive(Debug, Clone, PartialEq, Bpaf, Default)]\n");
    } else {
        src.push_str("#[derive(Debug, Clone, PartialEq, Bpaf)]\n");
    }
    if !attrs.is_empty() {
        src.push_str(&format!("#[bpaf({})]\n", attrs.join(", ")));
    }
    if fields.named {
        src.push_str(&format!("pub struct {} {{\n{}}}\n", name, fields.derive_src("    ")));
    } else {
        src.push_str(&format!("pub struct {}(\n{});\n", name, fields.derive_src("    ")));
    }
    let body = fields.twin_src(&name);
    let (twin_src, level) = if let Some((cname, shorts, longs)) = &top_command {
        // a command: the type's own OptionParser (doc comment and annotations as for `options`)
        // turned into a subcommand; the generated function returns a plain parser
        let mut tw = format!(
            "{}.to_options(){}.command({})",
            body,
            info_twin(&top, &version, fallback_usage),
            lit(cname)
        );
        for c in shorts {
            tw.push_str(&format!(".short({})", char_lit(*c)));
        }
        for l in longs {
            tw.push_str(&format!(".long({})", lit(l)));
        }
        tw.push_str(".to_options()");
        (
            tw,
            Level {
                body: Node::Cmd(Box::new(CmdSpec {
                    name: cname.clone(),
                    shorts: shorts.clone(),
                    longs: longs.clone(),
                    help: None,
                    adjacent: false,
                    level: Level {
                        body: fields.node(),
                        info: info_spec(&top, &version, fallback_usage),
                    },
                })),
                info: InfoSpec::default(),
            },
        )
    } else if parser_mode {
        // the whole doc comment of a parser-mode type is its group help
        let gh = explicit_gh.clone().or_else(|| doc_text(&top.lines));
        let tw = format!(
            "{}{}{}{}.to_options()",
            body,
            gh.as_ref()
                .map(|g| format!(".group_help({})", lit(g)))
                .unwrap_or_default(),
            if boxed { ".boxed()" } else { "" },
            if top_fallback {
                format!(".fallback({}::default()).debug_fallback()", name)
            } else {
                String::new()
            }
        );
        let node = match gh {
            Some(g) => Node::GroupHelp(fields.node().b(), DocSpec::plain(g)),
            None => fields.node(),
        };
        (
            tw,
            Level {
                body: node,
                info: InfoSpec::default(),
            },
        )
    } else {
        (
            format!(
                "{}.to_options(){}",
                body,
                info_twin(&top, &version, fallback_usage)
            ),
            Level {
                body: fields.node(),
                info: info_spec(&top, &version, fallback_usage),
            },
        )
    };
    TypeIR {
        name,
        derive_src: src,
        derived_fn,
        twin_src,
        level,
        parser_mode: parser_mode || top_command.is_some(),
        implicit_rules: fields.fields.iter().map(|f| f.implicit_rules).sum::<usize>()
            + usize::from(!top.lines.is_empty()),
        explicit_annotations: fields.fields.iter().filter(|f| f.explicit).count() + attrs.len(),
        kind: "struct",
    }
}


/// an `options` struct that embeds a parser-mode struct through `external`: the inner type's doc
/// comment is its group help, its container annotations (fallback + debug_fallback, or hide_usage)
/// apply to the whole group, and the group is one field among the outer type's own
pub fn gen_nested(u: &mut Un, ix: usize) -> TypeIR {
    let mut pools = Pools::new();
    let inner = format!("Inner{}", ix);
    let outer = format!("Outer{}", ix);
    let fields = gen_fields(u, &mut pools, 3, false);
    let inner_fn = snake(&inner);
    let group = format!("Group doc of {}", inner);
    let with_doc = u.chance(200);
    let mut inner_attrs: Vec<String> = Vec::new();
    let mut inner_tail = String::new();
    let mut derive_default = false;
    match u.below(4) {
        0 | 1 => {
            inner_attrs.push(format!("fallback({}::default())", inner));
            inner_attrs.push("debug_fallback".into());
            inner_tail = format!(".fallback({}::default()).debug_fallback()", inner);
            derive_default = true;
        }
        2 => {
            inner_attrs.push("hide_usage".into());
            inner_tail = ".hide_usage()".into();
        }
        _ => {}
    }
    let mut src = String::new();
    if with_doc {
        src.push_str(&format!("/// {}\n", group));
    }
    src.push_str(if derive_default {
        "#[derive(Debug, Clone, PartialEq, Bpaf, Default)]\n"
    } else {
        "#[derive(Debug, Clone, PartialEq, Bpaf)]\n"
    });
    if !inner_attrs.is_empty() {
        src.push_str(&format!("#[bpaf({})]\n", inner_attrs.join(", ")));
    }
    if fields.named {
        src.push_str(&format!("pub struct {} {{\n{}}}\n\n", inner, fields.derive_src("    ")));
    } else {
        src.push_str(&format!("pub struct {}(\n{});\n\n", inner, fields.derive_src("    ")));
    }
    let inner_first = u.bool();
    let own = "    /// Outer flag help\n    zz_outer_flag: bool,\n";
    let ext = format!("    #[bpaf(external({}))]\n    inner: {},\n", inner_fn, inner);
    src.push_str("#[derive(Debug, Clone, PartialEq, Bpaf)]\n#[bpaf(options)]\n");
    src.push_str(&format!(
        "pub struct {} {{\n{}{}}}\n",
        outer,
        if inner_first { ext.as_str() } else { own },
        if inner_first { own } else { ext.as_str() }
    ));
    let inner_twin = format!(
        "{}{}{}",
        fields.twin_src(&inner),
        if with_doc {
            format!(".group_help({})", lit(&group))
        } else {
            String::new()
        },
        inner_tail
    );
    let own_twin = "long(\"zz-outer-flag\").help(\"Outer flag help\").switch()";
    let twin_src = format!(
        "{{\n        let zz_outer_flag = {};\n        let inner = {};\n        construct!({} {{ {} }})\n    }}.to_options()",
        own_twin,
        inner_twin,
        outer,
        if inner_first { "inner, zz_outer_flag" } else { "zz_outer_flag, inner" }
    );
    let mut own_spec = crate::mk::named("", &["zz-outer-flag"], NamedKind::Switch);
    own_spec.help = Some(DocSpec::plain("Outer flag help"));
    let inner_node = if with_doc {
        Node::GroupHelp(fields.node().b(), DocSpec::plain(group))
    } else {
        fields.node()
    };
    let body = if inner_first {
        Node::Seq(vec![inner_node, Node::Named(own_spec)])
    } else {
        Node::Seq(vec![Node::Named(own_spec), inner_node])
    };
    TypeIR {
        name: outer.clone(),
        derive_src: src,
        derived_fn: snake(&outer),
        twin_src,
        level: Level {
            body,
            info: InfoSpec::default(),
        },
        parser_mode: false,
        implicit_rules: fields.fields.iter().map(|f| f.implicit_rules).sum::<usize>() + 2,
        explicit_annotations: fields.fields.iter().filter(|f| f.explicit).count()
            + inner_attrs.len()
            + 2,
        kind: "struct-with-external",
    }
}

/// an enum type: unit variants, struct/tuple variants, command variants
pub fn gen_enum(u: &mut Un, ix: usize) -> TypeIR {
    let mut pools = Pools::new();
    let name = format!("Choice{}", ix);
    let commands = u.chance(110);
    let n = 2 + u.below(3);
    let vnames = ["First", "SecondOne", "Third", "LöschenAlles", "Fifth"];
    let top = gen_top_doc(u, &name);
    let mut src = String::new();
    src.push_str(&doc_lines(&top.lines, ""));
    src.push_str("#[derive(Debug, Clone, PartialEq, Bpaf)]\n#[bpaf(options)]\n");
    src.push_str(&format!("pub enum {} {{\n", name));
    let mut alts_tw: Vec<String> = Vec::new();
    let mut alts_node: Vec<Node> = Vec::new();
    let mut implicit = usize::from(!top.lines.is_empty());
    let mut explicit = 1;
    let mut skipped_one = false;
    for vi in 0..n {
        let v = vnames[vi];
        let path = format!("{}::{}", name, v);
        if !skipped_one && u.chance(25) {
            // a variant bpaf must ignore
            skipped_one = true;
            src.push_str(&format!("    #[bpaf(skip)]\n    {},\n", v));
            explicit += 1;
            continue;
        }
        if commands {
            // command variant
            let mut vdoc = gen_top_doc(u, v);
            let cname_custom = u.chance(100);
            let cname = if cname_custom {
                format!("cmd{}", vi)
            } else {
                kebab(v)
            };
            let mut battr = vec![if cname_custom {
                format!("command({})", lit(&cname))
            } else {
                "command".to_owned()
            }];
            let mut shorts = Vec::new();
            let mut longs = Vec::new();
            if u.chance(80) {
                let c = ['R', 'S', 'T', 'U', 'W'][vi];
                battr.push(format!("short({})", char_lit(c)));
                shorts.push(c);
            }
            if u.chance(60) {
                let l = format!("alias{}", vi);
                battr.push(format!("long({})", lit(&l)));
                longs.push(l);
            }
            // explicit header / footer of the command override the doc comment's
            match u.below(6) {
                0 => {
                    let h = format!("Explicit header of {}", v);
                    battr.push(format!("header({})", lit(&h)));
                    vdoc.header = Some(h);
                }
                1 => {
                    let f = format!("Explicit footer of {}", v);
                    battr.push(format!("footer({})", lit(&f)));
                    vdoc.footer = Some(f);
                }
                2 => {
                    let h = format!("Explicit header of {}", v);
                    let f = format!("Explicit footer of {}", v);
                    battr.push(format!("header({})", lit(&h)));
                    battr.push(format!("footer({})", lit(&f)));
                    vdoc.header = Some(h);
                    vdoc.footer = Some(f);
                }
                _ => {}
            }
            let hidden = u.chance(25);
            if hidden {
                battr.push("hide".into());
            }
            if !cname_custom {
                implicit += 1;
            }
            explicit += battr.len();
            let unit = u.chance(60);
            src.push_str(&doc_lines(&vdoc.lines, "    "));
            src.push_str(&format!("    #[bpaf({})]\n", battr.join(", ")));
            let (body_tw, body_node) = if unit {
                src.push_str(&format!("    {},\n", v));
                (format!("pure({})", path), Node::Pure("unit".into()))
            } else {
                let fields = gen_fields(u, &mut pools, 3, true);
                implicit += fields.fields.iter().map(|f| f.implicit_rules).sum::<usize>();
                if fields.named {
                    src.push_str(&format!("    {} {{\n{}    }},\n", v, fields.derive_src("        ")));
                } else {
                    src.push_str(&format!("    {}(\n{}    ),\n", v, fields.derive_src("        ")));
                }
                (fields.twin_src(&path), fields.node())
            };
            let mut tw = format!(
                "{}.to_options(){}.command({})",
                body_tw,
                info_twin(&vdoc, &None, false),
                lit(&cname)
            );
            for c in &shorts {
                tw.push_str(&format!(".short({})", char_lit(*c)));
            }
            for l in &longs {
                tw.push_str(&format!(".long({})", lit(l)));
            }
            if hidden {
                tw.push_str(".hide()");
            }
            alts_tw.push(tw);
            let cmd = Node::Cmd(Box::new(CmdSpec {
                name: cname,
                shorts,
                longs,
                help: None,
                adjacent: false,
                level: Level {
                    body: body_node,
                    info: info_spec(&vdoc, &None, false),
                },
            }));
            alts_node.push(if hidden { Node::Hide(cmd.b()) } else { cmd });
            continue;
        }
        match u.below(3) {
            0 => {
                // unit variant: required flag named after the variant
                let doc = gen_doc(u, v);
                let help = doc_text(&doc);
                let mut battr = Vec::new();
                let mut shorts = Vec::new();
                let mut longs = Vec::new();
                match u.below(4) {
                    0 | 1 => {
                        implicit += 1;
                        longs.push(kebab(v));
                    }
                    2 => {
                        battr.push("short".to_owned());
                        implicit += 1;
                        shorts.push(kebab(v).chars().next().unwrap());
                    }
                    _ => {
                        let l = format!("pick-{}", vi);
                        battr.push(format!("long({})", lit(&l)));
                        longs.push(l);
                    }
                }
                explicit += battr.len();
                src.push_str(&doc_lines(&doc, "    "));
                if !battr.is_empty() {
                    src.push_str(&format!("    #[bpaf({})]\n", battr.join(", ")));
                }
                src.push_str(&format!("    {},\n", v));
                let naming = Naming {
                    attr: Vec::new(),
                    shorts: shorts.clone(),
                    longs: longs.clone(),
                    envs: Vec::new(),
                    implicit: 0,
                };
                alts_tw.push(format!("{}.req_flag({})", named_twin(&naming, &help), path));
                alts_node.push(Node::Named(named_spec(&mut pools, &naming, &help, NamedKind::ReqFlag)));
            }
            _ => {
                let fields = gen_fields(u, &mut pools, 3, false);
                if fields.fields.is_empty() {
                    continue;
                }
                implicit += fields.fields.iter().map(|f| f.implicit_rules).sum::<usize>();
                explicit += fields.fields.iter().filter(|f| f.explicit).count();
                src.push_str(&format!("    {} {{\n{}    }},\n", v, fields.derive_src("        ")));
                alts_tw.push(fields.twin_src(&path));
                alts_node.push(fields.node());
            }
        }
    }
    if alts_tw.is_empty() {
        // everything was skipped or empty: fall back to a single unit variant
        src.push_str("    Only,\n");
        alts_tw.push(format!("long(\"only\").req_flag({}::Only)", name));
        let naming = Naming {
            attr: Vec::new(),
            shorts: Vec::new(),
            longs: vec!["only".into()],
            envs: Vec::new(),
            implicit: 0,
        };
        alts_node.push(Node::Named(named_spec(&mut pools, &naming, &None, NamedKind::ReqFlag)));
    }
    src.push_str("}\n");
    let mut tw = String::from("{\n");
    for (i, a) in alts_tw.iter().enumerate() {
        tw.push_str(&format!("        let alt{} = {};\n", i, a));
    }
    let names: Vec<String> = (0..alts_tw.len()).map(|i| format!("alt{}", i)).collect();
    if names.len() == 1 {
        tw.push_str("        alt0\n    }");
    } else {
        tw.push_str(&format!("        construct!([{}])\n    }}", names.join(", ")));
    }
    tw.push_str(&format!(".to_options(){}", info_twin(&top, &None, false)));
    let body = if alts_node.len() == 1 {
        alts_node.pop().unwrap()
    } else {
        Node::Alt(alts_node)
    };
    TypeIR {
        derived_fn: snake(&name),
        name,
        derive_src: src,
        twin_src: tw,
        level: Level {
            body,
            info: info_spec(&top, &None, false),
        },
        parser_mode: false,
        implicit_rules: implicit,
        explicit_annotations: explicit,
        kind: if commands { "enum-commands" } else { "enum" },
    }
}

pub fn gen_family(seed_bytes: &[u8], n: usize) -> Vec<TypeIR> {
    let mut out = Vec::new();
    for i in 0..n {
        // every type gets its own slice of the choice stream
        let mut d = Vec::new();
        let mut x = crate::un::fnv(&[seed_bytes, &(i as u64).to_le_bytes()[..]].concat());
        for _ in 0..256 {
            x ^= x << 13;
            x ^= x >> 7;
            x ^= x << 17;
            d.push((x >> 24) as u8);
        }
        let mut u = Un::new(&d);
        let mut t = if i % 8 == 7 {
            gen_nested(&mut u, i)
        } else if u.chance(96) {
            gen_enum(&mut u, i)
        } else {
            gen_struct(&mut u, i)
        };
        crate::mk::assign_ids(&mut t.level);
        out.push(t);
    }
    out
}

/// source of the generated crate's main.rs
pub fn crate_source(family: &[TypeIR]) -> String {
    let mut s = String::new();
    s.push_str(
        r#"// generated by /verif/harness (C17): derived types, their documented hand written twins,
// and a driver that runs both on the same argument vectors.
#![allow(dead_code, non_snake_case, clippy::all)]
use bpaf::*;
use std::ffi::OsString;
use std::os::unix::ffi::OsStringExt;
use std::path::PathBuf;

fn double(x: u32) -> u32 { x.wrapping_mul(2) }
fn parse_num(s: String) -> Result<u32, std::num::ParseIntError> { s.parse::<u32>() }
fn small(x: &u32) -> bool { *x < 5000 }
fn at_most_two(xs: &Vec<u32>) -> bool { xs.len() <= 2 }

fn show<T: std::fmt::Debug>(r: &Result<T, ParseFailure>) -> String {
    match r {
        Ok(v) => format!("ok {:?}", v),
        Err(ParseFailure::Stdout(d, full)) => format!("stdout full={} {:?}", full, d.monochrome(*full)),
        Err(ParseFailure::Stderr(d)) => format!("stderr {:?}", d.monochrome(true)),
        Err(ParseFailure::Completion(c)) => format!("completion {:?}", c),
    }
}

fn same<T: PartialEq + std::fmt::Debug>(a: &Result<T, ParseFailure>, b: &Result<T, ParseFailure>) -> bool {
    match (a, b) {
        (Ok(x), Ok(y)) => x == y,
        (Err(ParseFailure::Stdout(d1, f1)), Err(ParseFailure::Stdout(d2, f2))) => f1 == f2 && d1.monochrome(*f1) == d2.monochrome(*f2),
        (Err(ParseFailure::Stderr(d1)), Err(ParseFailure::Stderr(d2))) => d1.monochrome(true) == d2.monochrome(true),
        (Err(ParseFailure::Completion(c1)), Err(ParseFailure::Completion(c2))) => c1 == c2,
        _ => false,
    }
}

"#,
    );
    for t in family {
        s.push_str(&t.derive_src);
        s.push('\n');
        s.push_str(&format!(
            "fn twin_{}() -> OptionParser<{}> {{\n    {}\n}}\n\n",
            t.name, t.name, t.twin_src
        ));
        let derived = if t.parser_mode {
            format!("{}().to_options()", t.derived_fn)
        } else {
            format!("{}()", t.derived_fn)
        };
        s.push_str(&format!(
            "fn check_{}(args: &[OsString]) -> Option<String> {{\n    let a = {}.run_inner(args);\n    let b = twin_{}().run_inner(args);\n    if same(&a, &b) {{ None }} else {{ Some(format!(\"derived: {{}}\\ntwin:    {{}}\", show(&a), show(&b))) }}\n}}\n\n",
            t.name, derived, t.name
        ));
    }
    s.push_str("fn dispatch(ty: usize, args: &[OsString]) -> Option<String> {\n    match ty {\n");
    for (i, t) in family.iter().enumerate() {
        s.push_str(&format!("        {} => check_{}(args),\n", i, t.name));
    }
    s.push_str("        _ => Some(\"unknown type\".into()),\n    }\n}\n\n");
    s.push_str(
        r#"fn unhex(s: &str) -> Vec<u8> {
    (0..s.len() / 2).map(|k| u8::from_str_radix(&s[2 * k..2 * k + 2], 16).unwrap_or(0)).collect()
}

fn main() {
    // file: one case per line: <type index> <hex item>,<hex item>,...
    let path = std::env::args().nth(1).expect("cases file");
    let out = std::env::args().nth(2).expect("output file");
    let text = std::fs::read_to_string(path).expect("read cases");
    std::panic::set_hook(Box::new(|_| {}));
    let mut res = String::new();
    for (n, line) in text.lines().enumerate() {
        let mut it = line.splitn(2, ' ');
        let ty: usize = it.next().unwrap_or("0").parse().unwrap_or(0);
        let items: Vec<OsString> = it
            .next()
            .unwrap_or("")
            .split(',')
            .filter(|x| !x.is_empty())
            .map(|h| OsString::from_vec(unhex(h.trim_start_matches('x'))))
            .collect();
        let r = std::panic::catch_unwind(|| dispatch(ty, &items));
        match r {
            Ok(None) => {}
            Ok(Some(d)) => res.push_str(&format!("MISMATCH {}\n{}\nEND\n", n, d)),
            Err(_) => res.push_str(&format!("MISMATCH {}\npanic in one of the parsers\nEND\n", n)),
        }
    }
    std::fs::write(out, res).expect("write results");
}
"#,
    );
    s
}
