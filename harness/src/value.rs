//! Dynamic value type produced by every interpreted parser.

use std::fmt;

#[derive(Clone, Debug, PartialEq, Eq, Hash)]
pub enum V {
    Unit,
    Bool(bool),
    /// String target (`String`)
    Str(String),
    /// OsString / PathBuf target, raw bytes
    Os(Vec<u8>),
    Num(i64),
    Count(usize),
    Opt(Option<Box<V>>),
    List(Vec<V>),
    Tup(Vec<V>),
    /// which alternative of an `Alt` produced the value
    Alt(usize, Box<V>),
    Cmd(String, Box<V>),
    /// constant supplied by the definition (pure, fallback)
    Const(String),
}

impl fmt::Display for V {
    fn fmt(&self, f: &mut fmt::Formatter<'_>) -> fmt::Result {
        match self {
            V::Unit => write!(f, "()"),
            V::Bool(b) => write!(f, "{}", b),
            V::Str(s) => write!(f, "{}", s),
            V::Os(b) => write!(f, "{}", String::from_utf8_lossy(b)),
            V::Num(n) => write!(f, "{}", n),
            V::Count(n) => write!(f, "{}", n),
            V::Opt(None) => write!(f, "none"),
            V::Opt(Some(v)) => write!(f, "{}", v),
            V::List(xs) | V::Tup(xs) => {
                write!(f, "[")?;
                for (i, x) in xs.iter().enumerate() {
                    if i > 0 {
                        write!(f, ",")?;
                    }
                    write!(f, "{}", x)?;
                }
                write!(f, "]")
            }
            V::Alt(i, v) => write!(f, "#{}:{}", i, v),
            V::Cmd(n, v) => write!(f, "{}:{}", n, v),
            V::Const(s) => write!(f, "{}", s),
        }
    }
}

impl V {
    pub fn some(v: V) -> V {
        V::Opt(Some(Box::new(v)))
    }
    pub fn none() -> V {
        V::Opt(None)
    }

    /// every user supplied leaf (Str/Os/Num) in traversal order, as bytes
    pub fn leaves(&self, out: &mut Vec<Vec<u8>>) {
        match self {
            V::Unit | V::Bool(_) | V::Count(_) | V::Const(_) => {}
            V::Str(s) => out.push(s.as_bytes().to_vec()),
            V::Os(b) => out.push(b.clone()),
            V::Num(n) => out.push(n.to_string().into_bytes()),
            V::Opt(None) => {}
            V::Opt(Some(v)) | V::Alt(_, v) | V::Cmd(_, v) => v.leaves(out),
            V::List(xs) | V::Tup(xs) => {
                for x in xs {
                    x.leaves(out);
                }
            }
        }
    }
}
