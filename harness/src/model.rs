//! Reference model of the *declared grammar* for the conventional fragment.
//!
//! Written from the documentation's description of the command line (attribution of every item
//! to the field that declares its name, arity per field, levels separated by command names), not
//! from bpaf's consume-and-retry implementation.

use std::collections::HashMap;

use crate::spec::*;
use crate::value::V;

#[derive(Clone, Debug, PartialEq, Eq)]
pub enum MOut {
    Value(V),
    Reject(String),
    /// help requested; path of command names entered; `exact` is false when something
    /// unclaimable precedes the help item
    Help { path: Vec<String>, exact: bool },
    Version { path: Vec<String> },
    /// the documentation does not fix the behaviour for this vector
    Outside(String),
}

impl MOut {
    pub fn class(&self) -> &'static str {
        match self {
            MOut::Value(_) => "value",
            MOut::Reject(_) => "stderr",
            MOut::Help { .. } | MOut::Version { .. } => "stdout",
            MOut::Outside(_) => "outside",
        }
    }
}

#[derive(Clone, Debug)]
enum Tok {
    Long {
        name: String,
        val: Option<Vec<u8>>,
    },
    Short {
        c: char,
        /// attached value (`-n=v`, `-nv`)
        val: Option<Vec<u8>>,
        /// last letter of its item: may own the following word
        last: bool,
    },
    Word(Vec<u8>),
}

struct Decls<'a> {
    /// name -> (level id, leaf)
    shorts: HashMap<char, (usize, &'a NamedSpec)>,
    longs: HashMap<String, (usize, &'a NamedSpec)>,
    /// parent of each level id
    parent: Vec<Option<usize>>,
}

fn collect<'a>(level: &'a Level, id: usize, next: &mut usize, d: &mut Decls<'a>) {
    let mut cmds: Vec<&'a CmdSpec> = Vec::new();
    level.body.walk(false, &mut |n| match n {
        Node::Named(x) => {
            for s in &x.shorts {
                d.shorts.insert(*s, (id, x));
            }
            for l in &x.longs {
                d.longs.insert(l.clone(), (id, x));
            }
        }
        Node::Cmd(c) => cmds.push(c),
        _ => {}
    });
    for c in cmds {
        let cid = *next;
        *next += 1;
        d.parent.push(Some(id));
        collect(&c.level, cid, next, d);
    }
}

fn level_ids<'a>(level: &'a Level, id: usize, next: &mut usize, out: &mut Vec<(usize, &'a Level)>) {
    out.push((id, level));
    for c in level.body.commands(false) {
        let cid = *next;
        *next += 1;
        level_ids(&c.level, cid, next, out);
    }
}

fn is_ancestor(d: &Decls, anc: usize, mut of: usize) -> bool {
    while let Some(p) = d.parent[of] {
        if p == anc {
            return true;
        }
        of = p;
    }
    false
}

/// Split the left part of the line into tokens, using the declared short names of the whole tree
fn tokenize(
    left: &[Vec<u8>],
    flags: &[char],
    args: &[char],
) -> Result<Vec<Tok>, MOut> {
    let mut out = Vec::new();
    for item in left {
        if item.len() < 2 || item[0] != b'-' {
            out.push(Tok::Word(item.clone()));
            continue;
        }
        if item[1] == b'-' {
            // long
            let body = &item[2..];
            let (name, val) = match body.iter().position(|b| *b == b'=') {
                Some(p) => (&body[..p], Some(body[p + 1..].to_vec())),
                None => (body, None),
            };
            let name = match std::str::from_utf8(name) {
                Ok(n) => n.to_owned(),
                Err(_) => return Err(MOut::Outside("non utf8 long name".into())),
            };
            out.push(Tok::Long { name, val });
            continue;
        }
        let body = &item[1..];
        if let Some(p) = body.iter().position(|b| *b == b'=') {
            let name = match std::str::from_utf8(&body[..p]) {
                Ok(n) => n,
                Err(_) => return Err(MOut::Outside("non utf8 short name".into())),
            };
            let mut chars = name.chars();
            let first = match chars.next() {
                Some(c) => c,
                None => return Err(MOut::Outside("-=".into())),
            };
            if chars.next().is_none() {
                out.push(Tok::Short {
                    c: first,
                    val: Some(body[p + 1..].to_vec()),
                    last: true,
                });
            } else if args.contains(&first) && !flags.contains(&first) {
                // -nVALUE where VALUE contains `=`
                out.push(Tok::Short {
                    c: first,
                    val: Some(body[first.len_utf8()..].to_vec()),
                    last: true,
                });
            } else {
                return Err(MOut::Outside("cluster with =".into()));
            }
            continue;
        }
        let s = match std::str::from_utf8(body) {
            Ok(s) => s,
            Err(_) => return Err(MOut::Outside("non utf8 short item".into())),
        };
        let n = s.chars().count();
        if n == 1 {
            out.push(Tok::Short {
                c: s.chars().next().unwrap(),
                val: None,
                last: true,
            });
            continue;
        }
        // cluster
        let mut toks = Vec::new();
        let mut ok = true;
        for (ix, c) in s.char_indices() {
            let f = flags.contains(&c);
            let a = args.contains(&c);
            if f && a {
                return Err(MOut::Outside("ambiguous cluster".into()));
            } else if f {
                toks.push(Tok::Short {
                    c,
                    val: None,
                    last: ix + c.len_utf8() == s.len(),
                });
            } else if a {
                let rest = &s[ix + c.len_utf8()..];
                toks.push(Tok::Short {
                    c,
                    val: if rest.is_empty() {
                        None
                    } else {
                        Some(rest.as_bytes().to_vec())
                    },
                    last: true,
                });
                break;
            } else {
                ok = false;
                break;
            }
        }
        if !ok {
            return Err(MOut::Outside("undeclared letter in a cluster".into()));
        }
        out.extend(toks);
    }
    Ok(out)
}

struct LvRun<'a> {
    id: usize,
    level: &'a Level,
    /// occurrences per leaf id, in command line order
    occ: HashMap<usize, Vec<Option<Vec<u8>>>>,
    /// positional words with their "right of --" mark
    words: Vec<(Vec<u8>, bool)>,
    /// index of the command alternative entered and the command
    entered: Option<(usize, &'a CmdSpec)>,
    env: &'a HashMap<String, Vec<u8>>,
}

fn cmd_alts(level: &Level) -> Option<(&[Node], bool)> {
    let fields = match &level.body {
        Node::Seq(xs) => xs,
        _ => return None,
    };
    for f in fields {
        match f {
            Node::Alt(xs) if xs.iter().all(|x| matches!(x, Node::Cmd(_))) => {
                return Some((xs, true))
            }
            Node::Optional { n, .. } => {
                if let Node::Alt(xs) = &**n {
                    if xs.iter().all(|x| matches!(x, Node::Cmd(_))) {
                        return Some((xs, false));
                    }
                }
            }
            _ => {}
        }
    }
    None
}

fn has_positionals(level: &Level) -> bool {
    level.body.count_kind(false, &|n| matches!(n, Node::Pos(_))) > 0
}

fn conv(ty: Ty, raw: &[u8]) -> Result<V, String> {
    ty.convert(raw)
}

fn leaf_value(n: &NamedSpec, raw: &Option<Vec<u8>>) -> Result<V, String> {
    match &n.kind {
        NamedKind::Switch | NamedKind::Flag => Ok(V::Bool(true)),
        NamedKind::ReqFlag => Ok(V::Unit),
        NamedKind::Arg { ty, .. } => conv(*ty, raw.as_ref().expect("argument occurrence has a value")),
    }
}

/// value of one level from what was attributed to it
fn eval_level(run: &LvRun, sub: Option<V>) -> Result<V, String> {
    let fields = match &run.level.body {
        Node::Seq(xs) => xs,
        _ => return Err("not conventional".into()),
    };
    // an item absent from the line is taken from the first of its variables that is set
    let occs = |n: &NamedSpec| -> Vec<Option<Vec<u8>>> {
        match run.occ.get(&n.id) {
            Some(v) if !v.is_empty() => v.clone(),
            _ => match n.envs.iter().find_map(|e| run.env.get(e)) {
                Some(val) => {
                    if n.is_arg() {
                        vec![Some(val.clone())]
                    } else {
                        vec![None]
                    }
                }
                None => Vec::new(),
            },
        }
    };
    let mut words = run.words.iter().peekable();
    let mut vals = Vec::new();
    let take_word = |p: &PosSpec, w: &(Vec<u8>, bool)| -> Result<V, String> {
        match p.strict {
            Strictness::Strict if !w.1 => return Err("strict positional left of --".into()),
            Strictness::NonStrict if w.1 => return Err("non strict positional right of --".into()),
            _ => {}
        }
        conv(p.ty, &w.0)
    };
    // a non strict positional simply does not see words from the right of `--`: optional and
    // repeated ones stop there
    let sees = |p: &PosSpec, w: &(Vec<u8>, bool)| -> bool {
        !(p.strict == Strictness::NonStrict && w.1)
    };
    for f in fields {
        let v = match f {
            Node::Pure(s) => V::Const(s.clone()),
            Node::Named(n) => {
                let o = occs(n);
                match n.kind {
                    NamedKind::Switch | NamedKind::Flag => match o.len() {
                        0 => V::Bool(false),
                        1 => V::Bool(true),
                        _ => return Err(format!("{} given twice", n.first_name())),
                    },
                    _ => match o.len() {
                        0 => return Err(format!("{} is missing", n.first_name())),
                        1 => leaf_value(n, &o[0])?,
                        _ => return Err(format!("{} given twice", n.first_name())),
                    },
                }
            }
            Node::Pos(p) => match words.next() {
                Some(w) => take_word(p, w)?,
                None => return Err(format!("positional {} missing", p.metavar)),
            },
            Node::Optional { n, .. } => match &**n {
                Node::Named(l) => {
                    let o = occs(l);
                    match o.len() {
                        0 => V::none(),
                        1 => V::some(leaf_value(l, &o[0])?),
                        _ => return Err(format!("{} given twice", l.first_name())),
                    }
                }
                Node::Pos(p) => match words.peek() {
                    Some(w) if sees(p, w) => {
                        let w = words.next().unwrap();
                        V::some(take_word(p, w)?)
                    }
                    _ => V::none(),
                },
                Node::Alt(_) => match &sub {
                    Some(v) => V::some(v.clone()),
                    None => V::none(),
                },
                _ => return Err("not conventional".into()),
            },
            Node::Many { n, .. } | Node::Some { n, .. } | Node::Collect { n, .. } => {
                let mut xs = Vec::new();
                match &**n {
                    Node::Named(l) => {
                        for o in &occs(l) {
                            xs.push(leaf_value(l, o)?);
                        }
                    }
                    Node::Pos(p) => {
                        while let Some(w) = words.peek() {
                            if !sees(p, w) {
                                break;
                            }
                            let w = words.next().unwrap();
                            xs.push(take_word(p, w)?);
                        }
                    }
                    _ => return Err("not conventional".into()),
                }
                if matches!(f, Node::Some { .. }) && xs.is_empty() {
                    return Err("some: nothing given".into());
                }
                V::List(xs)
            }
            Node::Count(n) => match &**n {
                Node::Named(l) => V::Count(occs(l).len()),
                _ => return Err("not conventional".into()),
            },
            Node::Last(n) => match &**n {
                Node::Named(l) => {
                    let o = occs(l);
                    let mut last = None;
                    for x in &o {
                        last = Some(leaf_value(l, x)?);
                    }
                    match last {
                        Some(v) => v,
                        None => return Err(format!("{} is missing", l.first_name())),
                    }
                }
                _ => return Err("not conventional".into()),
            },
            Node::Fallback { n, value, .. } => match &**n {
                Node::Named(l) => {
                    let o = occs(l);
                    match o.len() {
                        0 => V::Const(value.clone()),
                        1 => leaf_value(l, &o[0])?,
                        _ => return Err(format!("{} given twice", l.first_name())),
                    }
                }
                _ => return Err("not conventional".into()),
            },
            Node::FallbackWith { n, ok, value } => match &**n {
                Node::Named(l) => {
                    let o = occs(l);
                    match o.len() {
                        0 => {
                            if *ok {
                                V::Const(value.clone())
                            } else {
                                return Err("fallback function failed".into());
                            }
                        }
                        1 => leaf_value(l, &o[0])?,
                        _ => return Err(format!("{} given twice", l.first_name())),
                    }
                }
                _ => return Err("not conventional".into()),
            },
            Node::Alt(_) => match &sub {
                Some(v) => v.clone(),
                None => return Err("command is required".into()),
            },
            _ => return Err("not conventional".into()),
        };
        vals.push(v);
    }
    if words.next().is_some() {
        return Err("surplus positional word".into());
    }
    Ok(V::Tup(vals))
}

pub fn model(root: &Level, argv: &[Vec<u8>]) -> MOut {
    model_env(root, argv, &HashMap::new())
}

/// the reference model with a declared environment: name -> value of every variable that is set
pub fn model_env(root: &Level, argv: &[Vec<u8>], env: &HashMap<String, Vec<u8>>) -> MOut {
    let mut d = Decls {
        shorts: HashMap::new(),
        longs: HashMap::new(),
        parent: vec![None],
    };
    let mut next = 1;
    collect(root, 0, &mut next, &mut d);
    let mut lv = Vec::new();
    let mut next2 = 1;
    level_ids(root, 0, &mut next2, &mut lv);
    let level_id = |l: &Level| -> usize {
        lv.iter()
            .find(|(_, x)| std::ptr::eq(*x, l))
            .map(|(i, _)| *i)
            .expect("level id")
    };

    let (flags, args) = root.visible_shorts();
    let (left, right): (&[Vec<u8>], Option<&[Vec<u8>]>) =
        match argv.iter().position(|a| a.as_slice() == b"--") {
            Some(p) => (&argv[..p], Some(&argv[p + 1..])),
            None => (argv, None),
        };
    let toks = match tokenize(left, &flags, &args) {
        Ok(t) => t,
        Err(o) => return o,
    };

    let mut stack: Vec<LvRun> = vec![LvRun {
        id: 0,
        level: root,
        occ: HashMap::new(),
        words: Vec::new(),
        entered: None,
        env,
    }];
    let mut path: Vec<String> = Vec::new();
    let mut reject: Option<String> = None;
    let mut outside: Option<String> = None;
    let mut help: Option<(Vec<String>, bool)> = None;
    let mut version: Option<Vec<String>> = None;

    let mut i = 0;
    while i < toks.len() {
        let cur = stack.last_mut().unwrap();
        let info = &cur.level.info;
        let tok = &toks[i];
        i += 1;
        // help / version of the active level
        let (is_help, is_version) = match tok {
            Tok::Long { name, val: None } => (
                info.help_longs().contains(name),
                info.version_longs().contains(name),
            ),
            Tok::Short { c, val: None, .. } => (
                info.help_shorts().contains(c),
                info.version_shorts().contains(c),
            ),
            _ => (false, false),
        };
        if is_help {
            if help.is_none() {
                help = Some((path.clone(), reject.is_none() && outside.is_none()));
            }
            continue;
        }
        if is_version && info.version.is_some() {
            if version.is_none() && reject.is_none() {
                version = Some(path.clone());
            }
            continue;
        }
        if reject.is_some() {
            // keep scanning only to find help requests
            continue;
        }
        let decl = match tok {
            Tok::Long { name, .. } => d.longs.get(name).copied(),
            Tok::Short { c, .. } => d.shorts.get(c).copied(),
            Tok::Word(_) => None,
        };
        match tok {
            Tok::Word(w) => {
                if let Some((alts, _req)) = cmd_alts(cur.level) {
                    let ws = std::str::from_utf8(w).ok();
                    let hit = alts.iter().enumerate().find_map(|(ix, a)| match a {
                        Node::Cmd(c) if ws.map_or(false, |s| c.all_names().iter().any(|n| n == s)) => {
                            Some((ix, &**c))
                        }
                        _ => None,
                    });
                    match hit {
                        Some((ix, c)) => {
                            cur.entered = Some((ix, c));
                            path.push(c.name.clone());
                            let id = level_id(&c.level);
                            stack.push(LvRun {
                                id,
                                level: &c.level,
                                occ: HashMap::new(),
                                words: Vec::new(),
                                entered: None,
                                env,
                            });
                        }
                        None => reject = Some(format!("unknown command {:?}", ws)),
                    }
                } else if has_positionals(cur.level) {
                    cur.words.push((w.clone(), false));
                } else {
                    reject = Some("word where nothing is expected".into());
                }
            }
            Tok::Long { val, .. } | Tok::Short { val, .. } => {
                let (lid, leaf) = match decl {
                    Some(x) => x,
                    None => {
                        reject = Some("unknown name".into());
                        continue;
                    }
                };
                if lid != cur.id {
                    if is_ancestor(&d, lid, cur.id) {
                        outside = Some("enclosing level's option right of a command name".into());
                        // the rest of the line is still scanned for help
                        reject = Some("outside".into());
                    } else {
                        reject = Some("option of a level that is not active".into());
                    }
                    continue;
                }
                let owns_next = match tok {
                    Tok::Short { last, .. } => *last,
                    _ => true,
                };
                if leaf.is_arg() {
                    let value = match val {
                        Some(v) => Some(v.clone()),
                        None => {
                            if let NamedKind::Arg { adjacent: true, .. } = leaf.kind {
                                // adjacent restricted argument never takes a detached value
                                None
                            } else if owns_next {
                                match toks.get(i) {
                                    Some(Tok::Word(w)) => {
                                        i += 1;
                                        Some(w.clone())
                                    }
                                    _ => None,
                                }
                            } else {
                                None
                            }
                        }
                    };
                    match value {
                        Some(v) => cur.occ.entry(leaf.id).or_default().push(Some(v)),
                        None => reject = Some(format!("{} needs a value", leaf.first_name())),
                    }
                } else if val.is_some() {
                    reject = Some(format!("{} takes no value", leaf.first_name()));
                } else {
                    cur.occ.entry(leaf.id).or_default().push(None);
                }
            }
        }
    }

    if let Some((path, exact)) = help {
        return MOut::Help { path, exact };
    }
    if let Some(o) = outside {
        return MOut::Outside(o);
    }
    if let Some(path) = version {
        return MOut::Version { path };
    }
    if let Some(r) = reject {
        return MOut::Reject(r);
    }

    // right side of `--`
    if let Some(right) = right {
        let cur = stack.last_mut().unwrap();
        if !right.is_empty() {
            if has_positionals(cur.level) {
                for w in right {
                    cur.words.push((w.clone(), true));
                }
            } else {
                return MOut::Reject("words after -- where no positional is expected".into());
            }
        }
    }

    // evaluate from the innermost level outwards
    let mut sub: Option<V> = None;
    let mut innermost = true;
    while let Some(run) = stack.pop() {
        // `fallback_to_usage`: a level that got no item at all and whose parser fails prints
        // its usage on stdout instead of the error
        // (a lone `--` with nothing behind it leaves no item either)
        let no_items = innermost
            && right.map_or(true, |r| r.is_empty())
            && run.occ.is_empty()
            && run.words.is_empty()
            && run.entered.is_none();
        innermost = false;
        if no_items && run.level.info.fallback_to_usage {
            if eval_level(&run, None).is_err() {
                // whether the command was entered at all depends on the enclosing levels: when
                // one of them has a problem of its own the outcome is not modelled
                for outer in stack.iter() {
                    let dummy = outer.entered.as_ref().map(|(ix, c)| {
                        V::Alt(*ix, Box::new(V::Cmd(c.name.clone(), Box::new(V::Unit))))
                    });
                    if eval_level(outer, dummy).is_err() {
                        return MOut::Outside(
                            "usage fallback of a command below a level that fails on its own".into(),
                        );
                    }
                }
                return MOut::Help {
                    path: path.clone(),
                    exact: false,
                };
            }
        }
        // `sub` belongs to the command entered at this level
        let subv = match (&run.entered, sub.take()) {
            (Some((ix, c)), Some(v)) => {
                Some(V::Alt(*ix, Box::new(V::Cmd(c.name.clone(), Box::new(v)))))
            }
            (None, None) => None,
            _ => return MOut::Reject("internal: level bookkeeping".into()),
        };
        match eval_level(&run, subv) {
            Ok(v) => sub = Some(v),
            Err(e) => return MOut::Reject(e),
        }
    }
    MOut::Value(sub.unwrap())
}
