//! pbt <Cxx> [--tier quick|thorough] [--seed N] [--replay file]
//! pbt worker <Cxx> <tier> <seed> <shard> <nshards> <out>   (internal)

use std::fs::File;
use std::os::fd::{AsRawFd, FromRawFd};
use std::path::Path;

use bpaf_verif::engine::{replay, run_check, worker, Printer};
use bpaf_verif::props;

extern "C" {
    fn dup(fd: i32) -> i32;
    fn dup2(a: i32, b: i32) -> i32;
}

/// bpaf's check_invariants prints to stdout: keep the real stdout aside and point fd 1 at
/// /dev/null for the rest of the process.
fn steal_stdout() -> File {
    unsafe {
        let saved = dup(1);
        let null = File::options().write(true).open("/dev/null").expect("/dev/null");
        dup2(null.as_raw_fd(), 1);
        File::from_raw_fd(saved)
    }
}

fn main() {
    let args: Vec<String> = std::env::args().collect();
    if args.len() >= 8 && args[1] == "worker" {
        let prop = props::find(&args[2]).expect("unknown property");
        worker(
            prop.as_ref(),
            &args[3],
            args[4].parse().unwrap(),
            args[5].parse().unwrap(),
            args[6].parse().unwrap(),
            Path::new(&args[7]),
        );
        return;
    }
    let mut pr = Printer { out: steal_stdout() };
    if args.len() < 2 {
        pr.line("usage: pbt <Cxx> [--tier quick|thorough] [--seed N] [--replay file]");
        std::process::exit(2);
    }
    let id = &args[1];
    let prop = match props::find(id) {
        Some(p) => p,
        None => {
            pr.line(&format!("unknown property {}", id));
            std::process::exit(2);
        }
    };
    let mut tier = std::env::var("VERIF_TIER").unwrap_or_else(|_| "quick".into());
    let mut seed: u64 = std::env::var("VERIF_SEED")
        .ok()
        .and_then(|s| s.parse::<i64>().ok())
        .map(|x| x as u64)
        .unwrap_or(0);
    let mut replay_file: Option<String> = None;
    let mut i = 2;
    while i < args.len() {
        match args[i].as_str() {
            "--tier" => {
                tier = args[i + 1].clone();
                i += 1;
            }
            "--seed" => {
                seed = args[i + 1].parse::<i64>().expect("seed") as u64;
                i += 1;
            }
            "--replay" => {
                replay_file = Some(args[i + 1].clone());
                i += 1;
            }
            other => {
                pr.line(&format!("unknown argument {}", other));
                std::process::exit(2);
            }
        }
        i += 1;
    }
    if tier != "quick" && tier != "thorough" {
        tier = "quick".into();
    }
    let code = match replay_file {
        Some(f) => replay(prop.as_ref(), Path::new(&f), &mut pr),
        None => run_check(prop.as_ref(), &tier, seed, &mut pr),
    };
    std::process::exit(code);
}
