//! Corpus runner compiled once per cargo feature set (C20). Reads one hex choice string per line
//! from the file given as the first argument and prints, for each, the outcome of run_inner on
//! the decoded (definition, history) in a feature independent textual form.

use bpaf_verif::c20corpus::dump_case;

fn main() {
    let path = std::env::args().nth(1).expect("corpus file");
    let text = std::fs::read_to_string(path).expect("read corpus");
    bpaf_verif::outcome::install_panic_hook();
    let mut out = String::new();
    for (i, line) in text.lines().enumerate() {
        let bytes: Vec<u8> = (0..line.len() / 2)
            .map(|k| u8::from_str_radix(&line[2 * k..2 * k + 2], 16).unwrap_or(0))
            .collect();
        out.push_str(&format!("#{}\n{}\n", i, dump_case(&bytes)));
    }
    // stdout is used by bpaf's check_invariants: write to the file given as second argument
    let dest = std::env::args().nth(2).expect("output file");
    std::fs::write(dest, out).expect("write dump");
}
