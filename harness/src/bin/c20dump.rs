//! Corpus runner compiled once per cargo feature set (C20). Reads one hex choice string per line
//! from the file given as the first argument and prints, for each, the outcome of run_inner on
//! the decoded (definition, history) in a feature independent textual form.

use bpaf_verif::c20corpus::dump_case;

/// `c20dump --print <hex case>`: run the first line of the case and let bpaf print the outcome
/// itself (`ParseFailure::print_message`, what `OptionParser::run` does): the parent compares
/// what reaches the (piped) stdout and stderr across feature sets
fn print_mode(hex: &str) {
    let bytes: Vec<u8> = (0..hex.len() / 2)
        .map(|k| u8::from_str_radix(&hex[2 * k..2 * k + 2], 16).unwrap_or(0))
        .collect();
    let case = bpaf_verif::c20corpus::decode(&bytes);
    bpaf_verif::outcome::install_panic_hook();
    let parser = match bpaf_verif::outcome::guarded(|| bpaf_verif::build::build_level(&case.level)) {
        Ok(p) => p,
        Err(_) => {
            println!("BUILD-PANIC");
            return;
        }
    };
    let (argv, named) = match case.lines.first() {
        Some(l) => l,
        None => return,
    };
    let cfg = bpaf_verif::outcome::RunCfg {
        name: if *named { Some("app") } else { None },
        comp: None,
    };
    match bpaf_verif::outcome::run_raw(&parser, argv, &cfg) {
        Ok(Ok(_)) => println!("VALUE"),
        Ok(Err(f)) => {
            if bpaf_verif::outcome::guarded(|| f.print_message(100)).is_err() {
                println!("PRINT-PANIC");
            }
        }
        Err(_) => println!("PANIC"),
    }
}

fn main() {
    if std::env::args().nth(1).as_deref() == Some("--print") {
        print_mode(&std::env::args().nth(2).unwrap_or_default());
        return;
    }
    let path = std::env::args().nth(1).expect("corpus file");
    let text = std::fs::read_to_string(path).expect("read corpus");
    bpaf_verif::outcome::install_panic_hook();
    let mut out = String::new();
    for (i, line) in text.lines().enumerate() {
        let bytes: Vec<u8> = (0..line.len() / 2)
            .map(|k| u8::from_str_radix(&line[2 * k..2 * k + 2], 16).unwrap_or(0))
            .collect();
        out.push_str(&format!("#{}\n{}\n", i, dump_case(&bytes)));
    }
    // stdout is used by bpaf's check_invariants: write to the file given as second argument
    let dest = std::env::args().nth(2).expect("output file");
    std::fs::write(dest, out).expect("write dump");
}
