//! Real executable used by C11 and C18: decodes a definition from BPAF_VERIF_SPEC (hex choice
//! bytes, decoder chosen by BPAF_VERIF_GEN), builds the parser and calls the real
//! `OptionParser::run()`. On success prints `BODY <value>` and exits 0.

use bpaf_verif::build::build_level;
use bpaf_verif::un::Un;

fn unhex(s: &str) -> Vec<u8> {
    let s: Vec<u8> = s.bytes().filter(|b| b.is_ascii_hexdigit()).collect();
    s.chunks(2)
        .filter(|c| c.len() == 2)
        .map(|c| u8::from_str_radix(std::str::from_utf8(c).unwrap(), 16).unwrap())
        .collect()
}

fn main() {
    let spec = std::env::var("BPAF_VERIF_SPEC").unwrap_or_default();
    let gen = std::env::var("BPAF_VERIF_GEN").unwrap_or_default();
    let bytes = unhex(&spec);
    let mut u = Un::new(&bytes);
    let level = match gen.as_str() {
        "c18" => bpaf_verif::props::c18::decode_level(&mut u).0,
        _ => bpaf_verif::props::c11::decode_level(&mut u),
    };
    let parser = build_level(&level);
    let v = parser.run();
    println!("BODY {:?}", v);
}
