//! Broad fragment: definitions with alternatives, groups, adjacent groups, decorations and
//! nested commands, plus sentence-first generation for them.

use crate::gen::*;
use crate::spec::*;
use crate::un::Un;

#[derive(Clone, Debug)]
pub struct BroadCfg {
    pub max_fields: usize,
    pub max_depth: usize,
    pub alt: bool,
    pub groups: bool,
    pub adjacent: bool,
    pub adjacent_args: bool,
    pub hide: bool,
    pub decor: bool,
    pub guard: bool,
    pub typed: bool,
    pub help: HelpGen,
    pub version: bool,
    pub custom_help: bool,
    pub strictness: bool,
    /// chains of adjacent commands (`cmd1 --a cmd2 --b`) as a tail
    pub adjacent_cmds: bool,
    /// non-command alternatives next to commands in the same choice
    pub mixed_alt: bool,
    /// nested groups under optional / fallback / fallback_with
    pub wrapped_groups: bool,
    /// alternatives that share a name and help text but differ in kind or metavariable
    pub dup_names: bool,
    /// decorated groups whose first member is hidden; groups that contain commands
    pub odd_groups: bool,
    /// levels sometimes carry `fallback_to_usage()`
    pub usage_fallback: bool,
    /// catch on optional/many/some
    pub catch: bool,
}

#[derive(Clone, Copy, Debug, PartialEq, Eq)]
pub enum HelpGen {
    None,
    /// short unique marker words
    Markers,
    /// multi paragraph texts with hard breaks, code blocks, long and multi-byte words, control
    /// characters; first paragraph carries a `Hlp` marker, later ones `Deep` markers
    Grammar,
}

impl Default for BroadCfg {
    fn default() -> Self {
        BroadCfg {
            max_fields: 6,
            max_depth: 2,
            alt: true,
            groups: true,
            adjacent: true,
            adjacent_args: true,
            hide: true,
            decor: true,
            guard: true,
            typed: true,
            help: HelpGen::None,
            version: false,
            custom_help: false,
            strictness: false,
            adjacent_cmds: false,
            mixed_alt: false,
            wrapped_groups: false,
            dup_names: false,
            odd_groups: false,
            usage_fallback: false,
            catch: false,
        }
    }
}

fn conv_cfg(cfg: &BroadCfg) -> ConvCfg {
    ConvCfg {
        typed: cfg.typed,
        ..ConvCfg::default()
    }
}

fn marker(names: &mut Names, what: &str) -> String {
    format!("{}{}", what, names.val())
}

pub const WORDS: &[&str] = &[
    "a", "of", "the", "value", "output", "file", "ünï", "口水鸡", "naïve", "e\u{301}tude", "tab\there",
    "bell\u{7}x", "semi;colon", "(paren)", "dash-ed", "x=y", "--flag", "<META>", "[opt]", "don't",
    "100%", "a/b/c", "…", "ok.",
];

fn long_word(u: &mut Un) -> String {
    let n = 30 + u.below(60);
    let unit = *u.pick(&["abcdefghij", "ünïcödé", "口水鸡", "x"]);
    let mut s = String::new();
    while s.chars().count() < n {
        s.push_str(unit);
    }
    s
}

fn gen_paragraph(u: &mut Un, marker: &str) -> String {
    let n = 1 + u.below(14);
    let at = u.below(n);
    let mut s = String::new();
    for i in 0..n {
        if i > 0 {
            // separator: space, soft newline, hard break, hard break followed by a soft one
            // (a line of blanks, which does not end the paragraph)
            match u.weighted(&[20, 4, 2, 1]) {
                0 => s.push(' '),
                1 => s.push('\n'),
                2 => s.push_str("\n "),
                _ => s.push_str(*u.pick(&["\n \n", "\n  \n", "\n   \n"])),
            }
        }
        if i == at {
            s.push_str(marker);
        } else if u.chance(20) {
            s.push_str(&long_word(u));
        } else {
            s.push_str(*u.pick(WORDS));
        }
    }
    if u.chance(40) {
        // code block lines
        let k = 1 + u.below(3);
        for j in 0..k {
            s.push_str(&format!("\n    code line {} of {} {}", j, marker, u.pick(WORDS)));
        }
    }
    s
}

/// multi paragraph help text; paragraph 0 contains `Hlp<n>`, paragraph k>0 contains `Deep<n>x<k>`
pub fn gen_grammar_text(u: &mut Un, names: &mut Names) -> String {
    let id = names.val();
    let paragraphs = 1 + u.weighted(&[5, 3, 2]);
    let mut s = gen_paragraph(u, &format!("Hlp{}", id));
    for k in 1..paragraphs {
        s.push_str("\n\n");
        s.push_str(&gen_paragraph(u, &format!("Deep{}x{}", id, k)));
    }
    s
}


/// text of a group header: a marker; with the text grammar a title line, a body line and a
/// second paragraph
fn group_text(u: &mut Un, names: &mut Names, cfg: &BroadCfg) -> DocSpec {
    let m = marker(names, "Grp");
    if cfg.help == HelpGen::Grammar && u.chance(128) {
        DocSpec::plain(format!("{} title\nbody of the group\n\nsecond paragraph of {}", m, m))
    } else {
        DocSpec::plain(m)
    }
}

fn help_for(u: &mut Un, names: &mut Names, cfg: &BroadCfg) -> Option<DocSpec> {
    match cfg.help {
        HelpGen::None => None,
        HelpGen::Grammar => {
            if u.chance(30) {
                // a structured document: text with two paragraphs, an embedded document and more
                // text, all after the first empty line
                let id = names.val();
                let first = gen_paragraph(u, &format!("Hlp{}", id));
                let second = gen_paragraph(u, &format!("Deep{}x1", id));
                let inner = gen_paragraph(u, &format!("Deep{}x2", id));
                let tail = gen_paragraph(u, &format!("Deep{}x3", id));
                let k = if u.bool() { StyleK::Nested } else { StyleK::NestedEm };
                Some(DocSpec(vec![
                    (StyleK::Text, format!("{}\n\n{} ", first, second)),
                    (k, inner),
                    (StyleK::Text, format!(" {}", tail)),
                ]))
            } else if u.chance(220) {
                Some(DocSpec::plain(gen_grammar_text(u, names)))
            } else {
                None
            }
        }
        HelpGen::Markers => {
            if u.chance(25) {
                // a styled document of several fragments with the empty line inside one of them
                let first = marker(names, "Hlp");
                let second = marker(names, "Deep");
                let tail = marker(names, "Tail");
                Some(DocSpec(vec![
                    (StyleK::Text, "about ".into()),
                    (StyleK::Literal, "lit".into()),
                    (StyleK::Text, format!(" {}\n\nmore {} ", first, second)),
                    (StyleK::Emphasis, "em".into()),
                    (StyleK::Text, format!(" {}", tail)),
                ]))
            } else if u.chance(200) {
                let first = marker(names, "Hlp");
                if u.chance(80) {
                    let second = marker(names, "Deep");
                    Some(DocSpec::plain(format!("about {}\n\nmore {}", first, second)))
                } else {
                    Some(DocSpec::plain(format!("about {}", first)))
                }
            } else {
                None
            }
        }
    }
}

fn add_help(n: Node, u: &mut Un, names: &mut Names, cfg: &BroadCfg) -> Node {
    if cfg.help == HelpGen::None {
        return n;
    }
    match n {
        Node::Named(mut x) => {
            x.help = help_for(u, names, cfg);
            Node::Named(x)
        }
        Node::Pos(mut p) => {
            p.help = help_for(u, names, cfg);
            Node::Pos(p)
        }
        Node::Optional { n, catch } => Node::Optional {
            n: add_help(*n, u, names, cfg).b(),
            catch,
        },
        Node::Many { n, catch } => Node::Many {
            n: add_help(*n, u, names, cfg).b(),
            catch,
        },
        Node::Some { n, catch, msg } => Node::Some {
            n: add_help(*n, u, names, cfg).b(),
            catch,
            msg,
        },
        Node::Count(n) => Node::Count(add_help(*n, u, names, cfg).b()),
        Node::Last(n) => Node::Last(add_help(*n, u, names, cfg).b()),
        Node::Fallback { n, value, shown } => Node::Fallback {
            n: add_help(*n, u, names, cfg).b(),
            value,
            shown,
        },
        Node::FallbackWith { n, ok, value } => Node::FallbackWith {
            n: add_help(*n, u, names, cfg).b(),
            ok,
            value,
        },
        other => other,
    }
}

/// a required named item: req_flag or argument
fn gen_req_named(u: &mut Un, names: &mut Names, cfg: &BroadCfg, allow_adj_arg: bool) -> Node {
    if u.chance(110) {
        Node::Named(gen_named_leaf(u, names, NamedKind::ReqFlag))
    } else {
        let ty = gen_ty(u, cfg.typed);
        let metavar = metavar_for(ty, u);
        let adjacent = allow_adj_arg && cfg.adjacent_args && u.chance(50);
        Node::Named(gen_named_leaf(
            u,
            names,
            NamedKind::Arg {
                ty,
                metavar,
                adjacent,
            },
        ))
    }
}

fn decorate(n: Node, u: &mut Un, names: &mut Names, cfg: &BroadCfg) -> Node {
    let k = u.weighted(&[
        2,
        if cfg.hide { 2 } else { 0 },
        2,
        2,
        if cfg.guard { 2 } else { 0 },
        1,
        1,
        1,
        1,
    ]);
    match k {
        0 => n,
        1 => Node::Hide(n.b()),
        2 => Node::HideUsage(n.b()),
        3 => Node::GroupHelp(n.b(), group_text(u, names, cfg)),
        4 => Node::Guard {
            n: n.b(),
            pred: Pred::NotEq("bad".into()),
            msg: "must not be bad".into(),
        },
        5 => Node::Map(n.b()),
        6 => Node::Boxed(n.b()),
        7 => Node::CustomUsage(n.b(), DocSpec::plain(marker(names, "USG"))),
        _ => Node::WithGroupHelp(n.b(), DocSpec::plain(marker(names, "Wgh"))),
    }
}

fn gen_alt(u: &mut Un, names: &mut Names, cfg: &BroadCfg) -> Node {
    if cfg.dup_names && u.chance(70) {
        // `--color` | `--color=WHEN`, or `--input=FILE` | `--input=URL`: same name, same help
        let a = gen_named_leaf(u, names, NamedKind::ReqFlag);
        let a = match add_help(Node::Named(a), u, names, cfg) {
            Node::Named(x) => x,
            _ => unreachable!(),
        };
        let mut b = a.clone();
        b.id = names.id();
        let mut c = a.clone();
        c.id = names.id();
        let (first, second) = if u.bool() {
            b.kind = NamedKind::Arg {
                ty: Ty::Str,
                metavar: "WHEN".into(),
                adjacent: false,
            };
            (a, b)
        } else {
            b.kind = NamedKind::Arg {
                ty: Ty::Str,
                metavar: "FILE".into(),
                adjacent: false,
            };
            c.kind = NamedKind::Arg {
                ty: Ty::Str,
                metavar: "URL".into(),
                adjacent: false,
            };
            (b, c)
        };
        return Node::Alt(vec![Node::Named(first), Node::Named(second)]);
    }
    let n = 2 + u.below(2);
    let mut branches = Vec::new();
    for _ in 0..n {
        let b = match u.weighted(&[3, 2]) {
            0 => gen_req_named(u, names, cfg, true),
            _ => Node::Seq(vec![
                gen_req_named(u, names, cfg, false),
                gen_req_named(u, names, cfg, false),
            ]),
        };
        branches.push(add_help(b, u, names, cfg));
    }
    let alt = Node::Alt(branches);
    match u.weighted(&[3, 3, 2, 1]) {
        0 => alt,
        1 => Node::Optional {
            n: alt.b(),
            catch: false,
        },
        2 => Node::Many {
            n: alt.b(),
            catch: false,
        },
        _ => Node::Fallback {
            n: alt.b(),
            value: "alt-dflt".into(),
            shown: false,
        },
    }
}

fn gen_adjacent(u: &mut Un, names: &mut Names, cfg: &BroadCfg) -> Node {
    let lead = gen_req_named(u, names, cfg, false);
    let mut members = vec![add_help(lead, u, names, cfg)];
    if u.bool() {
        // multi value option: --point X Y
        let k = 1 + u.below(2);
        for _ in 0..k {
            let ty = *u.pick(&[Ty::Str, Ty::Str, Ty::Os]);
            members.push(Node::Pos(PosSpec {
                id: names.id(),
                metavar: metavar_for(ty, u),
                ty,
                help: None,
                strict: Strictness::Unrestricted,
            }));
        }
    } else {
        // option struct: --rect --w W --h H
        let k = 1 + u.below(2);
        for _ in 0..k {
            let m = gen_req_named(u, names, cfg, false);
            members.push(if u.chance(60) {
                Node::Optional {
                    n: m.b(),
                    catch: false,
                }
            } else {
                m
            });
        }
    }
    let adj = Node::Adjacent(members);
    match u.weighted(&[2, 3, 3]) {
        0 => adj,
        1 => Node::Optional {
            n: adj.b(),
            catch: false,
        },
        _ => Node::Many {
            n: adj.b(),
            catch: false,
        },
    }
}

pub fn gen_broad_field(u: &mut Un, names: &mut Names, cfg: &BroadCfg) -> Node {
    let k = u.weighted(&[
        6,
        if cfg.decor { 3 } else { 0 },
        if cfg.alt { 2 } else { 0 },
        if cfg.groups { 1 } else { 0 },
        if cfg.adjacent { 2 } else { 0 },
    ]);
    let cc = conv_cfg(cfg);
    match k {
        0 => {
            let f = gen_conv_field(u, names, &cc);
            add_help(f, u, names, cfg)
        }
        1 => {
            let f = gen_conv_field(u, names, &cc);
            let f = add_help(f, u, names, cfg);
            decorate(f, u, names, cfg)
        }
        2 => gen_alt(u, names, cfg),
        3 => {
            let n = 2 + u.below(2);
            let xs: Vec<Node> = (0..n)
                .map(|_| {
                    let f = gen_conv_field(u, names, &cc);
                    add_help(f, u, names, cfg)
                })
                .collect();
            let mut xs = xs;
            if cfg.odd_groups && u.chance(90) {
                let first = xs.remove(0);
                xs.insert(0, Node::Hide(first.b()));
            }
            let g = Node::Seq(xs);
            if cfg.wrapped_groups && u.chance(120) {
                // all members required so that a partial group is an error
                let k = 2 + u.below(2);
                let members: Vec<Node> = (0..k).map(|_| gen_req_named(u, names, cfg, false)).collect();
                let g = Node::Seq(members);
                match u.below(3) {
                    0 => Node::Optional {
                        n: g.b(),
                        catch: false,
                    },
                    1 => Node::Fallback {
                        n: g.b(),
                        value: "grp-dflt".into(),
                        shown: cfg.odd_groups && u.bool(),
                    },
                    _ => Node::FallbackWith {
                        n: g.b(),
                        ok: true,
                        value: "grp-dflt-with".into(),
                    },
                }
            } else if cfg.decor && u.bool() {
                Node::GroupHelp(g.b(), group_text(u, names, cfg))
            } else {
                g
            }
        }
        _ => gen_adjacent(u, names, cfg),
    }
}

fn gen_info(u: &mut Un, names: &mut Names, cfg: &BroadCfg, depth: usize) -> InfoSpec {
    let mut info = InfoSpec::default();
    if cfg.help == HelpGen::Grammar {
        if u.chance(150) {
            info.descr = Some(DocSpec::plain(gen_grammar_text(u, names).replace("Hlp", "Descr")));
        }
        if u.chance(100) {
            info.header = Some(DocSpec::plain(gen_grammar_text(u, names).replace("Hlp", "Header")));
        }
        if u.chance(100) {
            info.footer = Some(DocSpec::plain(gen_grammar_text(u, names).replace("Hlp", "Footer")));
        }
    } else if cfg.help != HelpGen::None {
        if u.chance(25) {
            // first line made of several fragments
            info.descr = Some(DocSpec(vec![
                (StyleK::Text, "wraps ".into()),
                (StyleK::Literal, "cargo build".into()),
                (StyleK::Text, format!(" for {}", marker(names, "Descr"))),
            ]));
        } else if u.chance(150) {
            info.descr = Some(DocSpec::plain(marker(names, "Descr")));
        }
        if u.chance(100) {
            info.header = Some(DocSpec::plain(marker(names, "Header")));
        }
        if u.chance(100) {
            info.footer = Some(DocSpec::plain(marker(names, "Footer")));
        }
    }
    if cfg.version && u.chance(if depth == 0 { 140 } else { 40 }) {
        info.version = Some("1.2.3".into());
    }
    if cfg.custom_help && u.chance(60) {
        // custom names must not collide with anything else in the tree
        let mut shorts = Vec::new();
        let mut longs = Vec::new();
        if u.bool() {
            if let Some(c) = names.short(u) {
                shorts.push(c);
            }
        }
        longs.push(names.long(u));
        info.help_names = Some((shorts, longs));
    }
    if cfg.usage_fallback && u.chance(50) {
        info.fallback_to_usage = true;
    }
    info
}

pub fn gen_broad_level(u: &mut Un, names: &mut Names, cfg: &BroadCfg, depth: usize) -> Level {
    let tail = if depth < cfg.max_depth {
        u.weighted(&[2, 3, 3, if cfg.adjacent_cmds { 2 } else { 0 }])
    } else {
        u.weighted(&[2, 3, 0])
    };
    let n_fields = u.below(cfg.max_fields + 1);
    let mut fields: Vec<Node> = (0..n_fields)
        .map(|_| gen_broad_field(u, names, cfg))
        .collect();
    let mut tail_nodes = Vec::new();
    match tail {
        3 => {
            // chain of adjacent commands: many([cmd1, cmd2, ..])
            let ncmd = 2 + u.below(2);
            let mut cmds = Vec::new();
            for _ in 0..ncmd {
                let name = names.cmd(u);
                let mut inner: Vec<Node> = Vec::new();
                let k = u.below(3);
                for _ in 0..k {
                    inner.push(match u.below(3) {
                        0 => Node::Named(gen_named_leaf(u, names, NamedKind::Switch)),
                        1 => Node::Optional {
                            n: gen_req_named(u, names, cfg, false).b(),
                            catch: false,
                        },
                        _ => gen_req_named(u, names, cfg, false),
                    });
                }
                if u.chance(80) {
                    let cc = conv_cfg(cfg);
                    inner.push(Node::Pos(gen_pos(u, names, &cc, Strictness::Unrestricted)));
                }
                if inner.is_empty() {
                    inner.push(Node::Pure("unit".into()));
                }
                let help = if cfg.help != HelpGen::None && u.chance(100) {
                    Some(DocSpec::plain(marker(names, "CmdHelp")))
                } else {
                    None
                };
                cmds.push(Node::Cmd(Box::new(CmdSpec {
                    name,
                    shorts: Vec::new(),
                    longs: Vec::new(),
                    help,
                    adjacent: true,
                    level: Level {
                        body: Node::Seq(inner),
                        info: gen_info(u, names, cfg, depth + 1),
                    },
                })));
            }
            tail_nodes.push(Node::Many {
                n: Node::Alt(cmds).b(),
                catch: false,
            });
        }
        1 => {
            let cc = conv_cfg(cfg);
            for p in gen_pos_suffix(u, names, &cc) {
                let p = add_help(p, u, names, cfg);
                tail_nodes.push(if cfg.decor && u.chance(40) {
                    Node::GroupHelp(p.b(), group_text(u, names, cfg))
                } else {
                    p
                });
            }
        }
        2 => {
            let ncmd = 1 + u.below(3);
            let mut cmds = Vec::new();
            for _ in 0..ncmd {
                let name = names.cmd(u);
                let mut shorts = Vec::new();
                let mut longs = Vec::new();
                if u.chance(90) {
                    if let Some(c) = names.cmd_short(u) {
                        shorts.push(c);
                    }
                }
                if u.chance(70) {
                    longs.push(names.cmd(u));
                }
                let level = gen_broad_level(u, names, cfg, depth + 1);
                let help = if cfg.help != HelpGen::None && u.chance(100) {
                    Some(DocSpec::plain(marker(names, "CmdHelp")))
                } else {
                    None
                };
                let c = Node::Cmd(Box::new(CmdSpec {
                    name,
                    shorts,
                    longs,
                    help,
                    adjacent: false,
                    level,
                }));
                cmds.push(if cfg.hide && u.chance(25) {
                    Node::Hide(c.b())
                } else {
                    c
                });
            }
            let mut mixed = false;
            if cfg.mixed_alt && u.chance(90) {
                // alternatives that are not commands, listed after them: some can succeed on
                // an empty line
                mixed = true;
                let k = 1 + u.below(2);
                for _ in 0..k {
                    cmds.push(match u.below(3) {
                        0 => Node::Named(gen_named_leaf(u, names, NamedKind::Switch)),
                        1 => Node::Seq(vec![
                            Node::Named(gen_named_leaf(u, names, NamedKind::Switch)),
                            Node::Optional {
                                n: gen_req_named(u, names, cfg, false).b(),
                                catch: false,
                            },
                        ]),
                        _ => gen_req_named(u, names, cfg, false),
                    });
                }
            }
            let alt = Node::Alt(cmds);
            let wrapped = if !mixed && u.chance(90) {
                Node::Optional {
                    n: alt.b(),
                    catch: false,
                }
            } else {
                alt
            };
            tail_nodes.push(if cfg.odd_groups && u.chance(70) {
                // a decorated group that starts with a flag and contains the commands
                let lead = Node::Named(gen_named_leaf(u, names, NamedKind::Switch));
                let lead = add_help(lead, u, names, cfg);
                Node::GroupHelp(
                    Node::Seq(vec![lead, wrapped]).b(),
                    DocSpec::plain(marker(names, "Grp")),
                )
            } else {
                wrapped
            });
        }
        _ => {}
    }
    fields.truncate(crate::build::MAX_SEQ - tail_nodes.len());
    fields.extend(tail_nodes);
    if fields.is_empty() {
        fields.push(Node::Pure("nothing".into()));
    }
    let info = gen_info(u, names, cfg, depth);
    Level {
        body: Node::Seq(fields),
        info,
    }
}

// ---------------------------------------------------------------------------------------------
// sentences for the broad fragment
// ---------------------------------------------------------------------------------------------

#[derive(Clone, Debug, PartialEq, Eq, Hash)]
pub enum Piece {
    /// name of an adjacent command at the start of its block
    CmdName(String),
    Occ(Occ),
    /// positional word that belongs to an adjacent block
    Word(Vec<u8>),
    /// adjacent block: pieces that must stay contiguous, in this order
    Group(Vec<Piece>),
}

#[derive(Clone, Debug, PartialEq, Eq, Hash, Default)]
pub struct BSent {
    /// named occurrences and adjacent blocks, free to move inside the level; the number is the
    /// index of the top level field of the level that they feed
    pub floating: Vec<(usize, Piece)>,
    /// positional words of the level in order
    pub words: Vec<Vec<u8>>,
    pub cmd: Option<(String, Box<BSent>)>,
    /// values (raw bytes) that must appear in the result
    pub delivered: Vec<Vec<u8>>,
}

#[derive(Clone, Copy, Debug, PartialEq, Eq)]
pub enum ValMode {
    /// unique simple tokens
    Tokens,
    /// byte level pool of awkward values
    Hard,
}

pub const HARD_STR: &[&str] = &[
    "", "=", "a=b", "--", "-x", " ", "a b", "ünï", "口", "-", "--x=y", "'", "\"", "\\", "x\ty",
    "=x", "-", "a=", "==", "--flag", "-ñ", "v",
];
pub const HARD_BYTES: &[&[u8]] = &[b"f\xff=", b"\xff", b"-\xff", b"a\x80b", b"=\xfe", b"\xc3"];

pub fn gen_hard_value(u: &mut Un, ty: Ty, names: &mut Names) -> Vec<u8> {
    match ty {
        Ty::Str => (*u.pick(HARD_STR)).as_bytes().to_vec(),
        Ty::Os | Ty::Path => {
            if u.chance(90) {
                (*u.pick(HARD_BYTES)).to_vec()
            } else {
                (*u.pick(HARD_STR)).as_bytes().to_vec()
            }
        }
        Ty::U32 | Ty::I64 => gen_value(u, names, ty),
    }
}

pub struct SentGen<'a> {
    pub names: &'a mut Names,
    pub mode: ValMode,
    pub in_group: bool,
}

impl SentGen<'_> {
    fn value(&mut self, u: &mut Un, ty: Ty) -> Vec<u8> {
        match self.mode {
            _ if self.in_group => {
                // members of a block cannot be moved behind `--`: no leading dash
                let v = gen_value(u, self.names, ty);
                match v.strip_prefix(b"-") {
                    Some(rest) => rest.to_vec(),
                    None => v,
                }
            }
            ValMode::Tokens => gen_value(u, self.names, ty),
            ValMode::Hard => {
                if u.chance(170) {
                    gen_hard_value(u, ty, self.names)
                } else {
                    gen_value(u, self.names, ty)
                }
            }
        }
    }

    fn occ(&mut self, u: &mut Un, n: &NamedSpec, deliver: bool, out: &mut BSent, sink: &mut Vec<Piece>) {
        let alias = pick_alias(u, n);
        match &n.kind {
            NamedKind::Arg { ty, adjacent, .. } => {
                let raw = self.value(u, *ty);
                if deliver {
                    out.delivered.push(raw.clone());
                }
                sink.push(Piece::Occ(Occ {
                    leaf: n.id,
                    alias,
                    value: Some(raw),
                    adjacent_only: *adjacent,
                }));
            }
            _ => sink.push(Piece::Occ(Occ {
                leaf: n.id,
                alias,
                value: None,
                adjacent_only: false,
            })),
        }
    }

    /// Generate pieces that satisfy `n`. `sink` receives floating pieces (or group members),
    /// `words` positional words.
    fn node(
        &mut self,
        u: &mut Un,
        node: &Node,
        out: &mut BSent,
        sink: &mut Vec<Piece>,
        words: &mut Vec<Vec<u8>>,
        pos_open: &mut bool,
    ) {
        match node {
            Node::Named(x) => match x.kind {
                NamedKind::Switch | NamedKind::Flag => {
                    if u.bool() {
                        self.occ(u, x, true, out, sink);
                    }
                }
                _ => self.occ(u, x, true, out, sink),
            },
            Node::Pos(p) => {
                let raw = self.value(u, p.ty);
                out.delivered.push(raw.clone());
                words.push(raw);
            }
            Node::Cmd(c) if c.adjacent => {
                // one contiguous block: name, own items, own words
                let all = c.all_names();
                let used = u.pick(&all).clone();
                let was = self.in_group;
                self.in_group = true;
                let sub = self.level(u, &c.level);
                self.in_group = was;
                let mut members = vec![Piece::CmdName(used)];
                members.extend(sub.floating.into_iter().map(|(_, p)| p));
                members.extend(sub.words.into_iter().map(Piece::Word));
                out.delivered.extend(sub.delivered);
                sink.push(Piece::Group(members));
            }
            Node::Cmd(c) => {
                let all = c.all_names();
                let used = u.pick(&all).clone();
                let sub = self.level(u, &c.level);
                out.cmd = Some((used, Box::new(sub)));
            }
            Node::Pure(_) | Node::Fail(_) | Node::Any(_) => {}
            Node::Seq(xs) => {
                for x in xs {
                    self.node(u, x, out, sink, words, pos_open);
                }
            }
            Node::Alt(xs) => {
                // never choose a branch that cannot succeed
                let ok: Vec<&Node> = xs.iter().filter(|x| !matches!(x, Node::Fail(_))).collect();
                if ok.is_empty() {
                    return;
                }
                let b = *u.pick(&ok);
                self.node(u, b, out, sink, words, pos_open);
            }
            Node::Adjacent(xs) => {
                let mut members: Vec<Piece> = Vec::new();
                let mut w: Vec<Vec<u8>> = Vec::new();
                let mut open = true;
                let was = self.in_group;
                self.in_group = true;
                for x in xs {
                    self.node(u, x, out, &mut members, &mut w, &mut open);
                }
                self.in_group = was;
                members.extend(w.into_iter().map(Piece::Word));
                sink.push(Piece::Group(members));
            }
            Node::Optional { n, .. } => {
                let is_pos = matches!(**n, Node::Pos(_));
                if is_pos && !*pos_open {
                    return;
                }
                if u.bool() {
                    self.node(u, n, out, sink, words, pos_open);
                } else if is_pos {
                    *pos_open = false;
                }
            }
            Node::Many { n, .. } | Node::Collect { n, .. } | Node::Some { n, .. } => {
                let is_pos = matches!(**n, Node::Pos(_));
                let min = usize::from(matches!(node, Node::Some { .. }));
                let k = (min + u.weighted(&[2, 3, 2, 1])).min(3);
                if is_pos && !*pos_open {
                    return;
                }
                for _ in 0..k {
                    self.node(u, n, out, sink, words, pos_open);
                }
            }
            Node::Count(n) => {
                let k = u.weighted(&[2, 3, 2, 1]);
                for _ in 0..k {
                    self.node(u, n, out, sink, words, pos_open);
                }
            }
            Node::Last(n) => {
                let k = 1 + u.weighted(&[3, 2, 1]);
                for i in 0..k {
                    if i + 1 == k {
                        self.node(u, n, out, sink, words, pos_open);
                    } else {
                        // earlier occurrences are parsed but not delivered
                        let mark = out.delivered.len();
                        self.node(u, n, out, sink, words, pos_open);
                        out.delivered.truncate(mark);
                    }
                }
            }
            Node::Fallback { n, .. } | Node::FallbackWith { n, ok: true, .. } => {
                if u.bool() {
                    self.node(u, n, out, sink, words, pos_open);
                }
            }
            Node::FallbackWith { n, ok: false, .. } => {
                self.node(u, n, out, sink, words, pos_open);
            }
            Node::Guard { n, .. }
            | Node::Parse { n, .. }
            | Node::Map(n)
            | Node::Hide(n)
            | Node::HideUsage(n)
            | Node::CustomUsage(n, _)
            | Node::GroupHelp(n, _)
            | Node::WithGroupHelp(n, _)
            | Node::Complete { n, .. }
            | Node::CompleteShell(n, _)
            | Node::Boxed(n) => self.node(u, n, out, sink, words, pos_open),
        }
    }

    pub fn level(&mut self, u: &mut Un, l: &Level) -> BSent {
        let mut out = BSent::default();
        let mut words = Vec::new();
        let mut open = true;
        let mut floating = Vec::new();
        let fields: Vec<&Node> = match &l.body {
            Node::Seq(xs) => xs.iter().collect(),
            other => vec![other],
        };
        for (ix, f) in fields.into_iter().enumerate() {
            let mut sink = Vec::new();
            self.node(u, f, &mut out, &mut sink, &mut words, &mut open);
            floating.extend(sink.into_iter().map(|p| (ix, p)));
        }
        out.floating = floating;
        out.words = words;
        out
    }
}

// ---------------------------------------------------------------------------------------------
// layout and spelling
// ---------------------------------------------------------------------------------------------

#[derive(Clone, Debug, PartialEq, Eq, Hash)]
pub enum LKind {
    Occ(Occ),
    Word(Vec<u8>),
    DashDash,
    Cmd(String),
}

#[derive(Clone, Debug, PartialEq, Eq, Hash)]
pub struct LItem {
    pub kind: LKind,
    /// command depth of the level the item belongs to
    pub level: usize,
    /// top level field of that level which the item feeds (usize::MAX for words / markers)
    pub field: usize,
    /// adjacent block number (unique over the line) if the item is part of one
    pub group: Option<usize>,
    /// stable identity of the item over re-layouts
    pub uid: usize,
}

#[derive(Clone, Debug, Default, PartialEq, Eq, Hash)]
pub struct Layout {
    pub items: Vec<LItem>,
}

/// A movable unit of one level: a single named occurrence or a whole adjacent block
#[derive(Clone, Debug)]
pub struct Unit {
    pub field: usize,
    pub items: Vec<LItem>,
}

/// units and words of every level, before an order is chosen
#[derive(Clone, Debug, Default)]
pub struct Prepared {
    pub levels: Vec<PreparedLevel>,
}

#[derive(Clone, Debug, Default)]
pub struct PreparedLevel {
    pub units: Vec<Unit>,
    pub words: Vec<LItem>,
    /// command name that follows this level
    pub cmd: Option<LItem>,
}

pub fn prepare(sent: &BSent) -> Prepared {
    fn flat(p: &Piece, level: usize, field: usize, group: Option<usize>, uid: &mut usize, gid: &mut usize, out: &mut Vec<LItem>) {
        match p {
            Piece::CmdName(n) => {
                out.push(LItem {
                    kind: LKind::Cmd(n.clone()),
                    level,
                    field,
                    group,
                    uid: *uid,
                });
                *uid += 1;
            }
            Piece::Occ(o) => {
                out.push(LItem {
                    kind: LKind::Occ(o.clone()),
                    level,
                    field,
                    group,
                    uid: *uid,
                });
                *uid += 1;
            }
            Piece::Word(w) => {
                out.push(LItem {
                    kind: LKind::Word(w.clone()),
                    level,
                    field,
                    group,
                    uid: *uid,
                });
                *uid += 1;
            }
            Piece::Group(ps) => {
                let g = *gid;
                *gid += 1;
                for x in ps {
                    flat(x, level, field, Some(g), uid, gid, out);
                }
            }
        }
    }
    let mut prep = Prepared::default();
    let mut cur = Some(sent);
    let mut level = 0;
    let mut uid = 0;
    let mut gid = 0;
    while let Some(s) = cur {
        let mut pl = PreparedLevel::default();
        for (field, p) in &s.floating {
            let mut items = Vec::new();
            flat(p, level, *field, None, &mut uid, &mut gid, &mut items);
            pl.units.push(Unit {
                field: *field,
                items,
            });
        }
        for w in &s.words {
            pl.words.push(LItem {
                kind: LKind::Word(w.clone()),
                level,
                field: usize::MAX,
                group: None,
                uid,
            });
            uid += 1;
        }
        if let Some((name, sub)) = &s.cmd {
            pl.cmd = Some(LItem {
                kind: LKind::Cmd(name.clone()),
                level,
                field: usize::MAX,
                group: None,
                uid,
            });
            uid += 1;
            cur = Some(sub);
        } else {
            cur = None;
        }
        prep.levels.push(pl);
        level += 1;
    }
    prep
}

fn dashy(w: &[u8]) -> bool {
    w.len() >= 2 && w[0] == b'-'
}

/// Choose an order: units permuted (units feeding the same field keep their relative order),
/// interleaved with the words; `--` possibly inserted at the innermost level.
pub fn layout(u: &mut Un, prep: &Prepared, shuffle: bool, dashdash: bool) -> Layout {
    let mut out = Layout::default();
    let n_levels = prep.levels.len();
    for (li, pl) in prep.levels.iter().enumerate() {
        let units: Vec<&Unit> = if shuffle {
            let perm = u.permutation(pl.units.len());
            let shuffled: Vec<&Unit> = perm.iter().map(|&i| &pl.units[i]).collect();
            let mut res: Vec<Option<&Unit>> = vec![None; pl.units.len()];
            let mut fields: Vec<usize> = Vec::new();
            for x in &pl.units {
                if !fields.contains(&x.field) {
                    fields.push(x.field);
                }
            }
            for f in fields {
                let slots: Vec<usize> = shuffled
                    .iter()
                    .enumerate()
                    .filter(|(_, x)| x.field == f)
                    .map(|(i, _)| i)
                    .collect();
                let originals: Vec<&Unit> = pl.units.iter().filter(|x| x.field == f).collect();
                for (s, o) in slots.iter().zip(originals) {
                    res[*s] = Some(o);
                }
            }
            res.into_iter().map(Option::unwrap).collect()
        } else {
            pl.units.iter().collect()
        };
        let innermost = li + 1 == n_levels;
        let mut after = 0;
        let mut use_dd = false;
        if innermost && dashdash && u.chance(70) {
            use_dd = true;
            after = u.below(pl.words.len() + 1);
        }
        let first_dashy = pl.words.iter().position(|w| match &w.kind {
            LKind::Word(b) => dashy(b),
            _ => false,
        });
        if let Some(p) = first_dashy {
            use_dd = true;
            after = after.max(pl.words.len() - p);
        }
        let before = pl.words.len() - after;
        let (mut bi, mut wi) = (0, 0);
        while bi < units.len() || wi < before {
            let take_unit = if bi >= units.len() {
                false
            } else if wi >= before {
                true
            } else if shuffle {
                u.bool()
            } else {
                true
            };
            if take_unit {
                out.items.extend(units[bi].items.iter().cloned());
                bi += 1;
            } else {
                out.items.push(pl.words[wi].clone());
                wi += 1;
            }
        }
        if use_dd {
            out.items.push(LItem {
                kind: LKind::DashDash,
                level: li,
                field: usize::MAX,
                group: None,
                uid: usize::MAX,
            });
            out.items.extend(pl.words[before..].iter().cloned());
        }
        if let Some(c) = &pl.cmd {
            out.items.push(c.clone());
        }
    }
    out
}

/// Deterministic layout: units of each level in the given order, `lead[level]` words before the
/// units and the rest after them; dash-looking words are written after `--`.
pub fn layout_fixed(prep: &Prepared, perms: &[Vec<usize>], lead: &[usize]) -> Layout {
    let mut out = Layout::default();
    for (li, pl) in prep.levels.iter().enumerate() {
        let first_dashy = pl.words.iter().position(|w| match &w.kind {
            LKind::Word(b) => dashy(b),
            _ => false,
        });
        let before = first_dashy.unwrap_or(pl.words.len());
        let k = lead.get(li).copied().unwrap_or(0).min(before);
        out.items.extend(pl.words[..k].iter().cloned());
        let ident: Vec<usize> = (0..pl.units.len()).collect();
        let perm = perms.get(li).unwrap_or(&ident);
        for &i in perm {
            out.items.extend(pl.units[i].items.iter().cloned());
        }
        out.items.extend(pl.words[k..before].iter().cloned());
        if before < pl.words.len() {
            out.items.push(LItem {
                kind: LKind::DashDash,
                level: li,
                field: usize::MAX,
                group: None,
                uid: usize::MAX,
            });
            out.items.extend(pl.words[before..].iter().cloned());
        }
        if let Some(c) = &pl.cmd {
            out.items.push(c.clone());
        }
    }
    out
}

/// all permutations of 0..n that keep the relative order of units feeding the same field
pub fn admissible_perms(units: &[Unit], limit: usize) -> Vec<Vec<usize>> {
    fn go(units: &[Unit], cur: &mut Vec<usize>, used: &mut Vec<bool>, out: &mut Vec<Vec<usize>>, limit: usize) {
        if out.len() >= limit {
            return;
        }
        if cur.len() == units.len() {
            out.push(cur.clone());
            return;
        }
        for i in 0..units.len() {
            if used[i] {
                continue;
            }
            // all earlier units of the same field must already be placed
            if (0..i).any(|j| !used[j] && units[j].field == units[i].field) {
                continue;
            }
            used[i] = true;
            cur.push(i);
            go(units, cur, used, out, limit);
            cur.pop();
            used[i] = false;
        }
    }
    let mut out = Vec::new();
    go(units, &mut Vec::new(), &mut vec![false; units.len()], &mut out, limit);
    out
}

/// spelling decision for every named occurrence, by uid
#[derive(Clone, Debug, Default, PartialEq, Eq)]
pub struct SpellPlan {
    /// (uid, spelling, join_with_next_in_cluster)
    pub plan: Vec<(usize, Spelling, bool)>,
}

#[derive(Clone, Debug, Default)]
pub struct SpellOpts {
    pub clusters: bool,
    /// signatures of known findings excluded by construction (see known_findings.json)
    pub no_glued_non_utf8: bool,
    pub no_hidden_in_cluster: Vec<usize>,
}

fn spellings(o: &Occ, opts: &SpellOpts, excluded: &mut u64) -> Vec<Spelling> {
    let mut ss = spellings_for_raw(o);
    if opts.no_hidden_in_cluster.contains(&o.leaf) && ss.contains(&Spelling::Glued) {
        ss.retain(|s| *s != Spelling::Glued);
        *excluded += 1;
    }
    if opts.no_glued_non_utf8 {
        if let Some(v) = &o.value {
            if std::str::from_utf8(v).is_err() && ss.contains(&Spelling::Glued) {
                ss.retain(|s| *s != Spelling::Glued);
                *excluded += 1;
            }
        }
    }
    ss
}

/// like `gen::spellings_for` but a glued non UTF-8 value is allowed by the notation
pub fn spellings_for_raw(o: &Occ) -> Vec<Spelling> {
    let mut r = Vec::new();
    match (&o.alias, &o.value) {
        (_, None) => r.push(Spelling::Detached),
        (Alias::Long(_), Some(v)) => {
            if detachable(v) && !o.adjacent_only {
                r.push(Spelling::Detached);
            }
            r.push(Spelling::Equals);
        }
        (Alias::Short(_), Some(v)) => {
            if detachable(v) && !o.adjacent_only {
                r.push(Spelling::Detached);
            }
            r.push(Spelling::Equals);
            if !v.is_empty() && v[0] != b'=' {
                r.push(Spelling::Glued);
            }
        }
    }
    r
}

pub fn plan_spelling(u: &mut Un, lay: &Layout, opts: &SpellOpts, excluded: &mut u64) -> SpellPlan {
    let mut plan = Vec::new();
    for it in &lay.items {
        if let LKind::Occ(o) = &it.kind {
            let ss = spellings(o, opts, excluded);
            let sp = *u.pick(&ss);
            let join = opts.clusters && u.chance(150);
            plan.push((it.uid, sp, join));
        }
    }
    SpellPlan { plan }
}

#[derive(Clone, Debug, Default)]
pub struct SpellStats {
    pub clusters: usize,
    pub equals: usize,
    pub glued: usize,
    pub detached: usize,
    pub multibyte_names: usize,
    pub hard_values: usize,
}

/// Render a layout with a spelling plan. Returns the argument vector and, for each item of the
/// vector, the uid of the layout item it came from (clusters: the first one).
pub fn render(lay: &Layout, plan: &SpellPlan, opts: &SpellOpts, stats: &mut SpellStats) -> (Vec<Vec<u8>>, Vec<usize>) {
    let (a, b, _) = render_full(lay, plan, opts, stats);
    (a, b)
}

/// like `render`; the third vector tells for every item whether it is an argument name whose
/// value is the following item
pub fn render_full(lay: &Layout, plan: &SpellPlan, opts: &SpellOpts, stats: &mut SpellStats) -> (Vec<Vec<u8>>, Vec<usize>, Vec<bool>) {
    let find = |uid: usize| plan.plan.iter().find(|p| p.0 == uid).map(|p| (p.1, p.2));
    let mut out: Vec<Vec<u8>> = Vec::new();
    let mut src: Vec<usize> = Vec::new();
    let mut owns: Vec<bool> = Vec::new();
    let mut i = 0;
    let items = &lay.items;
    while i < items.len() {
        let it = &items[i];
        match &it.kind {
            LKind::Word(w) => {
                out.push(w.clone());
                src.push(it.uid);
                i += 1;
            }
            LKind::DashDash => {
                out.push(b"--".to_vec());
                src.push(it.uid);
                i += 1;
            }
            LKind::Cmd(c) => {
                out.push(c.as_bytes().to_vec());
                src.push(it.uid);
                i += 1;
            }
            LKind::Occ(o) => {
                let (sp, join) = find(it.uid).unwrap_or((Spelling::Detached, false));
                if !o.alias_is_ascii() {
                    stats.multibyte_names += 1;
                }
                // cluster: consecutive short flags of the same level outside adjacent blocks
                let clusterable = |x: &LItem| -> Option<(char, bool)> {
                    if x.group.is_some() || x.level != it.level {
                        return None;
                    }
                    if let LKind::Occ(o) = &x.kind {
                        if opts.no_hidden_in_cluster.contains(&o.leaf) {
                            return None;
                        }
                        if let Alias::Short(c) = o.alias {
                            return Some((c, o.value.is_some()));
                        }
                    }
                    None
                };
                if opts.clusters && join && o.value.is_none() {
                    if let Some((c0, _)) = clusterable(it) {
                        let mut letters = String::new();
                        letters.push(c0);
                        let mut j = i + 1;
                        let mut tail: Option<Vec<u8>> = None;
                        let mut extra: Option<Vec<u8>> = None;
                        let mut count = 1;
                        let mut keep = true;
                        while keep && j < items.len() && count < 5 {
                            let (jsp, jjoin) = match &items[j].kind {
                                LKind::Occ(_) => find(items[j].uid).unwrap_or((Spelling::Detached, false)),
                                _ => break,
                            };
                            match clusterable(&items[j]) {
                                Some((c, false)) => {
                                    letters.push(c);
                                    count += 1;
                                    j += 1;
                                    keep = jjoin;
                                }
                                Some((c, true)) => {
                                    // a short argument may end the cluster
                                    if let LKind::Occ(oj) = &items[j].kind {
                                        let v = oj.value.as_ref().unwrap();
                                        let glue_ok = !v.is_empty()
                                            && v[0] != b'='
                                            && !v.contains(&b'=')
                                            && std::str::from_utf8(v).is_ok();
                                        match jsp {
                                            Spelling::Glued if glue_ok => {
                                                letters.push(c);
                                                tail = Some(v.clone());
                                                count += 1;
                                                j += 1;
                                            }
                                            Spelling::Detached => {
                                                letters.push(c);
                                                extra = Some(v.clone());
                                                count += 1;
                                                j += 1;
                                            }
                                            _ => {}
                                        }
                                    }
                                    break;
                                }
                                None => break,
                            }
                        }
                        if count >= 2 {
                            let mut item = format!("-{}", letters).into_bytes();
                            if let Some(t) = tail {
                                item.extend_from_slice(&t);
                            }
                            out.push(item);
                            src.push(it.uid);
                            owns.resize(out.len(), false);
                            if let Some(e) = extra {
                                *owns.last_mut().unwrap() = true;
                                out.push(e);
                                src.push(items[j - 1].uid);
                            }
                            stats.clusters += 1;
                            i = j;
                            continue;
                        }
                    }
                }
                let sp = if spellings_for_raw(o).contains(&sp) {
                    sp
                } else {
                    spellings_for_raw(o)[0]
                };
                match (o.value.is_some(), sp) {
                    (true, Spelling::Equals) => stats.equals += 1,
                    (true, Spelling::Glued) => stats.glued += 1,
                    (true, Spelling::Detached) => stats.detached += 1,
                    _ => {}
                }
                let spelled = spell(o, sp);
                let two = spelled.len() == 2;
                for x in spelled {
                    out.push(x);
                    src.push(it.uid);
                }
                owns.resize(out.len(), false);
                if two {
                    let n = owns.len();
                    owns[n - 2] = true;
                }
                i += 1;
            }
        }
    }
    owns.resize(out.len(), false);
    (out, src, owns)
}
